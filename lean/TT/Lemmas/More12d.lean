/-
  Helper lemmas for the wave-12 theorems on C11 (trace deletion on tokens and labels, terminal files),
  C14 (rejection anywhere, the fields of the `@` nodes) and C15 (head rules without the escape clause).
  Core only (no Mathlib).
-/
import TT.Spec.More12d
import TT.Lemmas.Edit
import TT.Lemmas.More4
import TT.Lemmas.Sort
import TT.Lemmas.WF
import TT.Lemmas.Binarize
import TT.Lemmas.Collapse
import TT.Lemmas.Heads
import TT.Lemmas.C20
namespace TT.Lemmas.More12d
open TT TT.Tree TT.Spec TT.Lemmas.WF TT.Lemmas.Edit

/-! ### C11: `ptb_delete_traces` on the tokens -/

/-- how a kept trace token shows in the sentence -/
def relab (o : TraceOpts) (l : Tree) : Tok := (some NONE_POS, traceLabel o (l.fields.word.getD []))

@[simp] theorem relab_shiftTok (o : TraceOpts) (a : Nat) (x : Tree) : relab o (shiftTok a x) = relab o x := by
  simp [relab]

theorem findLeaf_some_of_mem (t : Tree) (hN : Numbered t) (c : Nat) (hc : c ∈ t.leafNums) :
    ∃ l, t.findLeaf c = some l ∧ l ∈ t.terminals ∧ l.num = c ∧
      ∀ x ∈ t.terminals, x.num = c → x = l := by
  obtain ⟨l, hl, rfl⟩ := List.mem_map.1 hc
  refine ⟨l, findLeaf_of_mem_nodup t l hN.nodup hl, (mem_terminals t l).2 hl, rfl, ?_⟩
  intro x hx hxc
  have := findLeaf_of_mem_nodup t x hN.nodup ((mem_terminals t x).1 hx)
  rw [hxc, findLeaf_of_mem_nodup t l hN.nodup hl] at this
  exact (Option.some.inj this).symm

theorem contains_shift (off k n : Nat) (rest : List Nat) (hoff : off < k) (hr : ∀ b ∈ rest, k < b)
    (hn : n ≠ k - off) :
    (rest.map (· - (off + 1))).contains (sh (k - off) n) = ((k :: rest).map (· - off)).contains n := by
  have := deleteMany_filter_aux (k - off) off k n rest rfl hoff hr
  have hn' : (n != k - off) = true := by simpa using hn
  rw [hn', Bool.true_and] at this
  exact Bool.not_inj this

theorem contains_keep (off k n : Nat) (rest : List Nat) (hn : n ≠ k - off) :
    (rest.map (· - off)).contains n = ((k :: rest).map (· - off)).contains n := by
  simp only [List.map_cons, List.contains_cons]
  have : (n == k - off) = false := by simpa using hn
  rw [this, Bool.false_or]

theorem not_contains_self (off k : Nat) (rest : List Nat) (hoff : off < k) (hr : ∀ b ∈ rest, k < b) :
    (rest.map (· - off)).contains (k - off) = false := by
  rw [Bool.eq_false_iff]
  intro h
  simp only [List.contains_eq_mem, List.mem_map, decide_eq_true_eq] at h
  obtain ⟨b, hb, e⟩ := h
  have := hr b hb
  omega

mutual
theorem modifyLeaf_noEmpty (k : Nat) (g : Fields → Fields) : (t : Tree) →
    (modifyLeaf k g t).noEmpty = t.noEmpty
  | leaf n f => by simp only [modifyLeaf]; split <;> rfl
  | node f ks => by
    have e : (modifyLeafL k g ks).isEmpty = ks.isEmpty := by cases ks <;> simp [modifyLeafL]
    simp only [modifyLeaf, noEmpty, modifyLeafL_noEmpty k g ks, e]
theorem modifyLeafL_noEmpty (k : Nat) (g : Fields → Fields) : (ks : List Tree) →
    noEmptyL (modifyLeafL k g ks) = noEmptyL ks
  | [] => rfl
  | t :: ts => by simp only [modifyLeafL, noEmptyL, modifyLeaf_noEmpty k g t, modifyLeafL_noEmpty k g ts]
end

theorem modifyLeaf_belowOK (k : Nat) (g : Fields → Fields) (t : Tree) :
    belowOK (modifyLeaf k g t) = belowOK t := by
  cases t with
  | leaf n f => simp only [modifyLeaf]; split <;> rfl
  | node f ks => simp only [modifyLeaf, belowOK, modifyLeafL_noEmpty]

mutual
theorem cleanLabels_noEmpty (o : TraceOpts) : (t : Tree) → (cleanLabels o t).noEmpty = t.noEmpty
  | leaf n f => rfl
  | node f ks => by
    simp only [cleanLabels]
    split
    · rename_i h
      rw [List.isEmpty_iff] at h
      subst h; rfl
    · have e : (cleanLabelsL o ks).isEmpty = ks.isEmpty := by cases ks <;> simp [cleanLabelsL]
      simp only [noEmpty, cleanLabelsL_noEmpty o ks, e]
theorem cleanLabelsL_noEmpty (o : TraceOpts) : (ks : List Tree) →
    noEmptyL (cleanLabelsL o ks) = noEmptyL ks
  | [] => rfl
  | t :: ts => by simp only [cleanLabelsL, noEmptyL, cleanLabels_noEmpty o t, cleanLabelsL_noEmpty o ts]
end

theorem cleanLabels_belowOK (o : TraceOpts) (t : Tree) : belowOK (cleanLabels o t) = belowOK t := by
  cases t with
  | leaf n f => rfl
  | node f ks =>
    simp only [cleanLabels]
    split
    · rename_i h
      rw [List.isEmpty_iff] at h
      subst h; rfl
    · simp only [belowOK, cleanLabelsL_noEmpty]

theorem cleanLabels_isLeaf (o : TraceOpts) (t : Tree) : (cleanLabels o t).isLeaf = t.isLeaf := by
  cases t with
  | leaf n f => rfl
  | node f ks => simp only [cleanLabels]; split <;> rfl

theorem cleanLabels_numbered (o : TraceOpts) (t : Tree) (h : Numbered t) : Numbered (cleanLabels o t) := by
  refine ⟨by rw [cleanLabels_isLeaf]; exact h.1, ?_⟩
  have := h.2
  simp only [yield, terminals, leafNums, cleanLabels_leaves] at this ⊢
  exact this

theorem cleanLabels_sentence (o : TraceOpts) (t : Tree) : (cleanLabels o t).sentence = t.sentence := by
  simp only [sentence, terminals, cleanLabels_leaves]

/-- the token half of the fold of `traceStep`: numbering, pruning and the sentence -/
theorem traces_fold (o : TraceOpts) : ∀ (nums : List Nat) (t : Tree) (off : Nat), Numbered t →
    nums.Pairwise (· < ·) → (∀ k ∈ nums, off < k ∧ k - off ≤ t.leafNums.length) →
    Numbered (nums.foldl (traceStep o) (t, off)).1 ∧
    (belowOK t = true → belowOK (nums.foldl (traceStep o) (t, off)).1 = true) ∧
    (nums.foldl (traceStep o) (t, off)).1.sentence =
      (t.terminals.filter (fun l => !((nums.map (· - off)).contains l.num && delP o l))).map
        (fun l => if (nums.map (· - off)).contains l.num then relab o l else tok l)
  | [], t, off, hN, _, _ => by
    have e : t.terminals.filter (fun _ => true) = t.terminals := List.filter_eq_self.2 (fun _ _ => rfl)
    simp [hN, sentence_eq, e]
  | k :: rest, t, off, hN, hp, hb => by
    have hp' := List.pairwise_cons.1 hp
    have hk := hb k List.mem_cons_self
    have hmem : k - off ∈ t.leafNums := (hN.mem _).2 (by omega)
    obtain ⟨l, hf, hlt, hln, huniq⟩ := findLeaf_some_of_mem t hN (k - off) hmem
    simp only [List.foldl_cons]
    by_cases hd : delP o l = true
    · have hd' : (o.keepall || o.keep.contains (traceLabel o (l.fields.word.getD []))) = false := by
        simpa [delP] using hd
      have e : traceStep o (t, off) k = (deleteTerminal t (k - off), off + 1) := by
        simp only [traceStep, hf, hd']; rfl
      have hN1 := deleteTerminal_numbered t (k - off) hN hmem
      have hl1 := deleteTerminal_length t (k - off) hN hmem
      have ih := traces_fold o rest _ (off + 1) hN1 hp'.2 (by
        intro b hbr
        have h1 := hp'.1 b hbr
        have h2 := hb b (List.mem_cons_of_mem _ hbr)
        rw [hl1]; omega)
      rw [e]
      refine ⟨ih.1, fun hbo => ih.2.1 (deleteTerminal_belowOK t _ hbo), ?_⟩
      rw [ih.2.2, deleteTerminal_terminals t _ hN.1, List.filter_map, List.filter_filter, List.map_map]
      have key : ∀ x ∈ t.terminals, x.num ≠ k - off →
          (rest.map (· - (off + 1))).contains (sh (k - off) x.num) = ((k :: rest).map (· - off)).contains x.num :=
        fun x _ hx => contains_shift off k x.num rest hk.1 hp'.1 hx
      have hfil : t.terminals.filter (fun x => ((fun l => !((rest.map (· - (off + 1))).contains l.num && delP o l)) ∘
            shiftTok (k - off)) x && (x.num != k - off)) =
          t.terminals.filter (fun l => !(((k :: rest).map (· - off)).contains l.num && delP o l)) := by
        apply List.filter_congr
        intro x hx
        by_cases hxk : x.num = k - off
        · have : x = l := huniq x hx hxk
          subst this
          simp [hxk, hd]
        · have hxk' : (x.num != k - off) = true := by simpa using hxk
          simp only [Function.comp_apply, num_shiftTok, delP_shiftTok, key x hx hxk, hxk', Bool.and_true]
      rw [hfil]
      apply List.map_congr_left
      intro x hx
      obtain ⟨hx1, hx2⟩ := List.mem_filter.1 hx
      have hxk : x.num ≠ k - off := by
        intro hxk
        have : x = l := huniq x hx1 hxk
        subst this
        simp [hxk, hd] at hx2
      simp only [Function.comp_apply, num_shiftTok, key x hx1 hxk, relab_shiftTok, tok_shiftTok]
    · have hd0 : delP o l = false := by simpa using hd
      have hd' : (o.keepall || o.keep.contains (traceLabel o (l.fields.word.getD []))) = true := by
        unfold delP at hd0
        cases hx : (o.keepall || o.keep.contains (traceLabel o (l.fields.word.getD [])))
        · rw [hx] at hd0; cases hd0
        · rfl
      have e : traceStep o (t, off) k = (modifyLeaf (k - off)
          (fun f => { f with label := traceLabel o (l.fields.word.getD []), word := some NONE_POS }) t, off) := by
        simp only [traceStep, hf, hd']; rfl
      have ih := traces_fold o rest _ off (modifyLeaf_numbered (k - off)
          (fun f => { f with label := traceLabel o (l.fields.word.getD []), word := some NONE_POS }) t hN) hp'.2 (by
        intro b hbr
        rw [modifyLeaf_leafNums]
        exact hb b (List.mem_cons_of_mem _ hbr))
      rw [e]
      refine ⟨ih.1, fun hbo => ih.2.1 (by rw [modifyLeaf_belowOK]; exact hbo), ?_⟩
      rw [ih.2.2, modifyLeaf_terminals, List.filter_map, List.map_map]
      have hself := not_contains_self off k rest hk.1 hp'.1
      have key : ∀ x ∈ t.terminals, x.num ≠ k - off →
          (rest.map (· - off)).contains x.num = ((k :: rest).map (· - off)).contains x.num :=
        fun x _ hx => contains_keep off k x.num rest hx
      have hfil : t.terminals.filter ((fun l => !((rest.map (· - off)).contains l.num && delP o l)) ∘
            modTok (k - off) (fun f => { f with label := traceLabel o (l.fields.word.getD []), word := some NONE_POS })) =
          t.terminals.filter (fun l => !(((k :: rest).map (· - off)).contains l.num && delP o l)) := by
        apply List.filter_congr
        intro x hx
        by_cases hxk : x.num = k - off
        · have : x = l := huniq x hx hxk
          subst this
          simp only [Function.comp_apply, num_modTok, hxk, hself, Bool.false_and, hd0, Bool.and_false]
        · simp only [Function.comp_apply, num_modTok, key x hx hxk]
          simp [modTok, hxk]
      rw [hfil]
      apply List.map_congr_left
      intro x hx
      obtain ⟨hx1, hx2⟩ := List.mem_filter.1 hx
      by_cases hxk : x.num = k - off
      · have : x = l := huniq x hx1 hxk
        subst this
        have hc : ((k :: rest).map (· - off)).contains (k - off) = true := by simp
        simp only [Function.comp_apply, num_modTok, hxk, hself, hc, if_true, Bool.false_eq_true, if_false]
        simp only [modTok, hxk, if_true, relab, tok]
        cases x <;> rfl
      · simp only [Function.comp_apply, num_modTok, key x hx1 hxk]
        simp [modTok, hxk]

/-- a token's number is among the numbers of a sub-selection iff the token is selected -/
theorem num_mem_filter (t : Tree) (hN : Numbered t) (p : Tree → Bool) (l : Tree) (hl : l ∈ t.terminals) :
    ((t.terminals.filter p).map num).contains l.num = p l := by
  rw [Bool.eq_iff_iff]
  simp only [List.contains_eq_mem, List.mem_map, List.mem_filter, decide_eq_true_eq]
  constructor
  · rintro ⟨x, ⟨hx, hpx⟩, e⟩
    have h1 := findLeaf_of_mem_nodup t x hN.nodup ((mem_terminals t x).1 hx)
    have h2 := findLeaf_of_mem_nodup t l hN.nodup ((mem_terminals t l).1 hl)
    rw [e, h2] at h1
    rw [Option.some.inj h1]; exact hpx
  · intro h; exact ⟨l, ⟨hl, h⟩, rfl⟩

/-- the sentence after trace deletion, filter form: the tokens that are not deleted traces, in order,
    the kept traces relabelled -/
theorem traces_sentence_filter (o : TraceOpts) (t : Tree) (hN : Numbered t) :
    (ptbDeleteTraces o t).sentence =
      (t.terminals.filter (fun l => !(l.fields.label == NONE_POS && delP o l))).map (traceTok o) := by
  have hs := filter_terminals_nums t (fun l => l.fields.label == NONE_POS) hN
  have h := traces_fold o _ t 0 hN hs.1 (by
    intro k hk
    have := (hN.mem k).1 (hs.2 k hk)
    omega)
  unfold ptbDeleteTraces
  rw [cleanLabels_sentence, h.2.2]
  have e0 : ∀ l : List Nat, l.map (· - 0) = l := by intro l; simp
  rw [e0]
  have e1 : t.terminals.filter (fun l => !(((t.terminals.filter fun l => l.fields.label == NONE_POS).map num).contains l.num
        && delP o l)) = t.terminals.filter (fun l => !(l.fields.label == NONE_POS && delP o l)) := by
    apply List.filter_congr
    intro l hl
    rw [num_mem_filter t hN _ l hl]
  rw [e1]
  apply List.map_congr_left
  intro l hl
  rw [num_mem_filter t hN _ l (List.mem_filter.1 hl).1]
  rfl

theorem traces_tokens (o : TraceOpts) (t : Tree) (hN : Numbered t) :
    Numbered (ptbDeleteTraces o t) ∧
    (belowOK t = true → belowOK (ptbDeleteTraces o t) = true) ∧
    (ptbDeleteTraces o t).sentence = dropPositions (t.terminals.map (traceTok o)) (tracePositions o t) := by
  have hs := filter_terminals_nums t (fun l => l.fields.label == NONE_POS) hN
  have h := traces_fold o _ t 0 hN hs.1 (by
    intro k hk
    have := (hN.mem k).1 (hs.2 k hk)
    omega)
  refine ⟨?_, ?_, ?_⟩
  · unfold ptbDeleteTraces; exact cleanLabels_numbered o _ h.1
  · intro hb; unfold ptbDeleteTraces; rw [cleanLabels_belowOK]; exact h.2.1 hb
  · rw [traces_sentence_filter o t hN]
    have e1 : t.terminals.filter (fun l => !(l.fields.label == NONE_POS && delP o l)) =
        t.terminals.filter (fun l => !(tracePositions o t).contains l.num) := by
      apply List.filter_congr
      intro l hl
      unfold tracePositions
      rw [num_mem_filter t hN _ l hl]
      rfl
    rw [e1]
    unfold dropPositions
    exact filter_key_eq_zipIdx num (traceTok o) (fun i => !(tracePositions o t).contains i) t.terminals 0
      hN.terminals_num

/-! ### C11: `ptb_delete_traces` on the constituent labels -/

theorem consLabelsL_eq' : ∀ ks : List Tree, consLabelsL ks = ks.flatMap consLabels
  | [] => by simp [consLabelsL]
  | t :: ts => by simp [consLabelsL, consLabelsL_eq' ts]

mutual
theorem delLeaf_consLabels (k : Nat) : (t : Tree) →
    (match delLeaf k t with | some t' => consLabels t' | none => []).Sublist (consLabels t)
  | leaf n f => by
    by_cases h : n = k <;> simp [delLeaf, h, consLabels]
  | node f ks => by
    have ih := delLeafL_consLabels k ks
    simp only [delLeaf]
    by_cases hc : ((delLeafL k ks).isEmpty && !ks.isEmpty) = true
    · simp only [hc, if_true]; exact List.nil_sublist _
    · simp only [hc, consLabels]
      exact ih.cons_cons _
theorem delLeafL_consLabels (k : Nat) : (ks : List Tree) →
    (consLabelsL (delLeafL k ks)).Sublist (consLabelsL ks)
  | [] => by simp [delLeafL, consLabelsL]
  | t :: ts => by
    have ih1 := delLeaf_consLabels k t
    have ih2 := delLeafL_consLabels k ts
    simp only [delLeafL]
    cases hd : delLeaf k t with
    | some t' =>
      rw [hd] at ih1
      simp only [consLabelsL]
      exact ih1.append ih2
    | none =>
      simp only [consLabelsL]
      exact ih2.trans (List.sublist_append_right _ _)
end

theorem deleteTerminal_consLabels (t : Tree) (k : Nat) :
    (consLabels (deleteTerminal t k)).Sublist (consLabels t) := by
  cases t with
  | leaf n f => exact List.Sublist.refl _
  | node f ks =>
    simp only [deleteTerminal, consLabels]
    exact (delLeafL_consLabels k ks).cons_cons _

mutual
theorem modifyLeaf_consLabels (k : Nat) (g : Fields → Fields) : (t : Tree) →
    consLabels (modifyLeaf k g t) = consLabels t
  | leaf n f => by simp only [modifyLeaf]; split <;> rfl
  | node f ks => by simp only [modifyLeaf, consLabels, modifyLeafL_consLabels k g ks]
theorem modifyLeafL_consLabels (k : Nat) (g : Fields → Fields) : (ks : List Tree) →
    consLabelsL (modifyLeafL k g ks) = consLabelsL ks
  | [] => rfl
  | t :: ts => by
    simp only [modifyLeafL, consLabelsL, modifyLeaf_consLabels k g t, modifyLeafL_consLabels k g ts]
end

theorem traceStep_consLabels (o : TraceOpts) (acc : Tree × Nat) (k : Nat) :
    (consLabels (traceStep o acc k).1).Sublist (consLabels acc.1) := by
  obtain ⟨cur, off⟩ := acc
  simp only [traceStep]
  split
  · exact List.Sublist.refl _
  · split
    · simp only [modifyLeaf_consLabels]; exact List.Sublist.refl _
    · exact deleteTerminal_consLabels _ _

theorem traces_fold_consLabels (o : TraceOpts) : ∀ (nums : List Nat) (acc : Tree × Nat),
    (consLabels (nums.foldl (traceStep o) acc).1).Sublist (consLabels acc.1)
  | [], _ => List.Sublist.refl _
  | k :: rest, acc => by
    simp only [List.foldl_cons]
    exact (traces_fold_consLabels o rest _).trans (traceStep_consLabels o acc k)

theorem cleanLabelsL_eq_map (o : TraceOpts) : ∀ ks : List Tree, cleanLabelsL o ks = ks.map (cleanLabels o)
  | [] => rfl
  | t :: ts => by simp [cleanLabelsL, cleanLabelsL_eq_map o ts]

/-- every constituent that still has children carries the cleaned form of a label of the input -/
theorem cleanLabels_nodes (o : TraceOpts) (t : Tree) :
    ∀ s ∈ (cleanLabels o t).subtrees, ∀ f k ks, s = node f (k :: ks) →
      ∃ l ∈ consLabels t, f.label = cleanLabel o l := by
  induction t using tree_ind with
  | hl n f =>
    intro s hs f' k ks e
    simp only [cleanLabels, subtrees, List.mem_singleton] at hs
    rw [hs] at e; cases e
  | hn f ks ih =>
    intro s hs f' k ks' e
    simp only [cleanLabels] at hs
    split at hs
    · simp only [subtrees, subtreesL, List.mem_singleton] at hs
      rw [hs] at e; cases e
    · rw [mem_subtrees_node] at hs
      rcases hs with hs | ⟨c, hc, hsc⟩
      · rw [hs] at e
        injection e with e1 e2
        subst e1
        exact ⟨f.label, by simp [consLabels], rfl⟩
      · rw [cleanLabelsL_eq_map] at hc
        obtain ⟨c0, hc0, rfl⟩ := List.mem_map.1 hc
        obtain ⟨l, hl, e2⟩ := ih c0 hc0 s hsc f' k ks' e
        refine ⟨l, ?_, e2⟩
        simp only [consLabels, consLabelsL_eq', List.mem_cons, List.mem_flatMap]
        exact Or.inr ⟨c0, hc0, hl⟩

/-- labels after trace deletion: constituents with children carry cleaned input labels -/
theorem traces_nodes (o : TraceOpts) (t : Tree) :
    ∀ s ∈ (ptbDeleteTraces o t).subtrees, ∀ f k ks, s = node f (k :: ks) →
      ∃ l ∈ consLabels t, f.label = cleanLabel o l := by
  intro s hs f k ks e
  unfold ptbDeleteTraces at hs
  obtain ⟨l, hl, e2⟩ := cleanLabels_nodes o _ s hs f k ks e
  exact ⟨l, (traces_fold_consLabels o _ (t, 0)).subset hl, e2⟩

/-- the constituent labels after trace deletion (when a token is left): the cleaned labels of a
    sub-selection of the input's constituents, in the same order -/
theorem traces_consLabels (o : TraceOpts) (t : Tree) (hN : Numbered t) (hb : belowOK t = true)
    (hpos : (tracePositions o t).length < t.leafNums.length) :
    ∃ sub : List Str, sub.Sublist (consLabels t) ∧
      consLabels (ptbDeleteTraces o t) = sub.map (cleanLabel o) := by
  have hs := filter_terminals_nums t (fun l => l.fields.label == NONE_POS) hN
  have hbd : ∀ k ∈ (t.terminals.filter fun l => l.fields.label == NONE_POS).map num,
      0 < k ∧ k - 0 ≤ t.leafNums.length := by
    intro k hk
    have := (hN.mem k).1 (hs.2 k hk)
    omega
  have h := traces_fold o _ t 0 hN hs.1 hbd
  have hc := traces_aux o _ t 0 hN hs.1 hbd
  rw [traces_count o t hN] at hc
  have hwf := WF_of_numbered _ h.1 (h.2.1 hb) (by rw [hc]; omega)
  refine ⟨_, traces_fold_consLabels o
    ((t.terminals.filter fun l => l.fields.label == NONE_POS).map num) (t, 0), ?_⟩
  unfold ptbDeleteTraces
  exact TT.Lemmas.More4.cleanLabels_consLabels o _ (WF_noEmpty _ hwf)

/-! ### C11: terminal files (duplicate index, other sentence ids) -/

/-- the requests the table holds for one sentence, in the order they were read -/
def entries (tbl : TermTable) (sid : Nat) : List (Nat × Str × Option Str) :=
  ((tbl.find? (·.1 == sid)).map (·.2)).getD []

theorem reqsFor_eq (tbl : TermTable) (sid : Nat) : reqsFor tbl sid = sortBy (·.1) (entries tbl sid) := rfl

theorem parseTermFile_eq (np : Bool) (c : Str) :
    parseTermFile np c = (fileLines c).foldlM (parseTermLine np) [] := rfl

theorem addEntry_none (tbl : TermTable) (s k : Nat) (w : Str) (p : Option Str) :
    addEntry tbl s k w p = none ↔ (entries tbl s).any (·.1 == k) = true := by
  unfold addEntry entries
  cases hf : tbl.find? (·.1 == s) with
  | none => simp
  | some e =>
    obtain ⟨s0, es⟩ := e
    simp only [Option.map_some, Option.getD_some]
    split <;> simp_all

theorem addEntry_entries (tbl tbl' : TermTable) (s k : Nat) (w : Str) (p : Option Str)
    (h : addEntry tbl s k w p = some tbl') (sid : Nat) :
    entries tbl' sid = if sid = s then entries tbl s ++ [(k, w, p)] else entries tbl sid := by
  unfold addEntry at h
  cases hf : tbl.find? (·.1 == s) with
  | none =>
    rw [hf] at h
    simp only [Option.some.injEq] at h
    subst h
    unfold entries
    rw [List.find?_append]
    by_cases hs : sid = s
    · subst hs
      simp [hf]
    · have : (s == sid) = false := by simpa using fun e => hs e.symm
      simp only [hs, if_false, List.find?_cons, this, List.find?_nil]
      cases tbl.find? (·.1 == sid) <;> rfl
  | some e =>
    obtain ⟨s0, es⟩ := e
    rw [hf] at h
    simp only at h
    split at h
    · cases h
    · simp only [Option.some.injEq] at h
      subst h
      have hs0 : s0 = s := by simpa using List.find?_some hf
      subst hs0
      unfold entries
      rw [List.find?_map]
      have e1 : ((fun (x : Nat × List (Nat × Str × Option Str)) => x.1 == sid) ∘
          fun (x : Nat × List (Nat × Str × Option Str)) =>
            if x.1 == s0 then (x.1, x.2 ++ [(k, w, p)]) else (x.1, x.2)) = fun x => x.1 == sid := by
        funext x; simp only [Function.comp_apply]; split <;> rfl
      rw [e1]
      by_cases hs : sid = s0
      · subst hs
        simp [hf]
      · simp only [hs, if_false]
        cases hg : tbl.find? (·.1 == sid) with
        | none => rfl
        | some x =>
          have hx : x.1 = sid := by simpa using List.find?_some hg
          have : ¬ x.1 = s0 := by rw [hx]; exact hs
          simp [this]

theorem parseTermLine_ok (np : Bool) (tbl tbl' : TermTable) (line : Str)
    (h : parseTermLine np tbl line = .ok tbl') :
    ∃ r, lineRow line = some r ∧ addEntry tbl r.1 r.2.1 r.2.2.1 r.2.2.2 = some tbl' := by
  unfold parseTermLine at h
  cases hsp : splitWs line with
  | nil => rw [hsp] at h; cases h
  | cons s l1 =>
    cases l1 with
    | nil => rw [hsp] at h; cases h
    | cons k l2 =>
      cases l2 with
      | nil => rw [hsp] at h; cases h
      | cons w rest =>
        rw [hsp] at h
        simp only at h
        cases hs : strToNat? s with
        | none => rw [hs] at h; cases h
        | some s' =>
          cases hk : strToNat? k with
          | none => rw [hs, hk] at h; cases h
          | some k' =>
            rw [hs, hk] at h
            simp only at h
            refine ⟨(s', k', w, rest.head?), by simp only [lineRow, hsp, hs, hk], ?_⟩
            split at h
            · cases h
            · split at h
              · rename_i t ht
                cases h
                exact ht
              · cases h

/-- what the table and the rows read so far have to do with each other -/
def TblInv (tbl : TermTable) (rows : List Row) : Prop :=
  (∀ sid, entries tbl sid = (rows.filter (·.1 == sid)).map (·.2)) ∧ (rows.map rowKey).Nodup

theorem tblInv_step (tbl tbl' : TermTable) (rows : List Row) (r : Row) (hi : TblInv tbl rows)
    (h : addEntry tbl r.1 r.2.1 r.2.2.1 r.2.2.2 = some tbl') : TblInv tbl' (rows ++ [r]) := by
  obtain ⟨h1, h2⟩ := hi
  constructor
  · intro sid
    rw [addEntry_entries tbl tbl' _ _ _ _ h sid, List.filter_append, List.map_append]
    by_cases hs : sid = r.1
    · subst hs
      simp [h1]
    · have : (r.1 == sid) = false := by simpa using fun e => hs e.symm
      simp [hs, h1, this]
  · rw [List.map_append, List.nodup_append]
    refine ⟨h2, by simp, ?_⟩
    intro a ha b hb
    simp only [List.map_cons, List.map_nil, List.mem_singleton] at hb
    subst hb
    intro e
    subst e
    obtain ⟨r0, hr0, e0⟩ := List.mem_map.1 ha
    have hnone : addEntry tbl r.1 r.2.1 r.2.2.1 r.2.2.2 ≠ none := by rw [h]; simp
    rw [Ne, addEntry_none, h1] at hnone
    apply hnone
    simp only [List.any_eq_true, List.mem_map, List.mem_filter]
    simp only [rowKey, Prod.mk.injEq] at e0
    exact ⟨r0.2, ⟨r0, ⟨hr0, by simpa using e0.1⟩, rfl⟩, by simpa using e0.2⟩

theorem foldlM_tblInv (np : Bool) : ∀ (lines : List Str) (tbl0 tbl : TermTable) (rows0 : List Row),
    TblInv tbl0 rows0 → lines.foldlM (parseTermLine np) tbl0 = .ok tbl →
    ∃ rows : List Row, lines.map lineRow = rows.map some ∧ TblInv tbl (rows0 ++ rows)
  | [], tbl0, tbl, rows0, hi, h => by
    simp only [List.foldlM_nil, pure, Except.pure, Except.ok.injEq] at h
    subst h
    exact ⟨[], rfl, by simpa using hi⟩
  | line :: rest, tbl0, tbl, rows0, hi, h => by
    simp only [List.foldlM_cons, bind, Except.bind] at h
    split at h
    · cases h
    · rename_i tbl1 h1
      obtain ⟨r, hr, ha⟩ := parseTermLine_ok np tbl0 tbl1 line h1
      obtain ⟨rows, hrows, hinv⟩ := foldlM_tblInv np rest tbl1 tbl (rows0 ++ [r]) (tblInv_step _ _ _ _ hi ha) h
      exact ⟨r :: rows, by simp [hr, hrows], by simpa using hinv⟩

/-- a terminal file that loads: every line has its fields, no (sentence, index) pair occurs twice, and the
    requests for a sentence are exactly the lines of that sentence, in file order -/
theorem parseTermFile_rows (np : Bool) (c : Str) (tbl : TermTable) (h : parseTermFile np c = .ok tbl) :
    ∃ rows : List Row, (fileLines c).map lineRow = rows.map some ∧ (rows.map rowKey).Nodup ∧
      ∀ sid, entries tbl sid = (rows.filter (·.1 == sid)).map (·.2) := by
  rw [parseTermFile_eq] at h
  obtain ⟨rows, h1, h2, h3⟩ := foldlM_tblInv np _ [] tbl [] ⟨fun _ => rfl, List.nodup_nil⟩ h
  exact ⟨rows, h1, by simpa using h3, by simpa using h2⟩

/-- kinds of failure: when every line has its fields (and, where a tag is required, a tag), the only possible
    failure is the duplicate index -/
theorem parseTermLine_full (np : Bool) (tbl : TermTable) (line : Str) (r : Row) (hr : lineRow line = some r)
    (hp : np = true → r.2.2.2.isSome = true) :
    parseTermLine np tbl line = match addEntry tbl r.1 r.2.1 r.2.2.1 r.2.2.2 with
      | some t => .ok t
      | none => .error .valueError := by
  unfold lineRow at hr
  unfold parseTermLine
  cases hsp : splitWs line with
  | nil => rw [hsp] at hr; cases hr
  | cons s l1 =>
    cases l1 with
    | nil => rw [hsp] at hr; cases hr
    | cons k l2 =>
      cases l2 with
      | nil => rw [hsp] at hr; cases hr
      | cons w rest =>
        rw [hsp] at hr
        simp only at hr ⊢
        cases hs : strToNat? s with
        | none => rw [hs] at hr; cases hr
        | some s' =>
          cases hk : strToNat? k with
          | none => rw [hs, hk] at hr; cases hr
          | some k' =>
            rw [hs, hk] at hr
            simp only [Option.some.injEq] at hr
            subst hr
            have : (np && (rest.head?).isNone) = false := by
              cases np
              · rfl
              · have := hp rfl
                simp only at this
                cases hh : rest.head? <;> simp_all
            simp only [this, Bool.false_eq_true, if_false]
            cases addEntry tbl s' k' w rest.head? <;> rfl

theorem foldlM_full (np : Bool) : ∀ (lines : List Str) (tbl0 : TermTable) (e : Err),
    (∀ l ∈ lines, ∃ r, lineRow l = some r ∧ (np = true → r.2.2.2.isSome = true)) →
    lines.foldlM (parseTermLine np) tbl0 = .error e → e = .valueError
  | [], _, _, _, h => by simp [pure, Except.pure] at h
  | line :: rest, tbl0, e, hl, h => by
    obtain ⟨r, hr, hp⟩ := hl line List.mem_cons_self
    simp only [List.foldlM_cons, bind, Except.bind, parseTermLine_full np tbl0 line r hr hp] at h
    cases ha : addEntry tbl0 r.1 r.2.1 r.2.2.1 r.2.2.2 with
    | none => rw [ha] at h; simp only at h; cases h; rfl
    | some t =>
      rw [ha] at h
      exact foldlM_full np rest t e (fun l hl' => hl l (List.mem_cons_of_mem _ hl')) h


/-! ### C11: the sequential list specifications, position by position -/

/-- what one accepted substitution request does to a sentence entry -/
def substTok (r : Nat × Str × Option Str) (tk : Tok) : Tok := (some r.2.1, r.2.2.getD tk.2)

theorem zipIdx_map_get {α β} (l : List α) (f : α × Nat → β) (i : Nat) :
    (l.zipIdx.map f)[i]? = (l[i]?).map (fun a => f (a, i)) := by
  rw [List.getElem?_map, List.getElem?_zipIdx]
  cases l[i]? <;> simp

theorem substitute_fold_get (n : Nat) : ∀ (reqs : List (Nat × Str × Option Str)) (cur : List Tok) (i : Nat),
    (reqs.foldl (fun cur (k, w, p) =>
      if k ≥ 1 && k ≤ n then
        cur.zipIdx.map fun (tok, i) => if i + 1 == k then (some w, p.getD tok.2) else tok
      else cur) cur)[i]? =
    (cur[i]?).map (fun tk => (reqs.filter (fun r => r.1 == i + 1 && decide (r.1 ≤ n))).foldl (fun tk r => substTok r tk) tk)
  | [], cur, i => by simp
  | (k, w, p) :: rest, cur, i => by
    simp only [List.foldl_cons]
    rw [substitute_fold_get n rest]
    by_cases hc : (k ≥ 1 && k ≤ n) = true
    · simp only [hc, if_true]
      rw [zipIdx_map_get]
      by_cases hk : k = i + 1
      · subst hk
        have hle : decide (i + 1 ≤ n) = true := by simpa using hc
        simp only [List.filter_cons, beq_self_eq_true, hle, Bool.and_self, if_true, List.foldl_cons]
        cases cur[i]? <;> simp [substTok]
      · have h1 : (i + 1 == k) = false := by simpa using fun e => hk e.symm
        have h2 : (k == i + 1) = false := by simpa using hk
        simp only [List.filter_cons, h1, h2, Bool.false_and, Bool.false_eq_true, if_false]
        cases cur[i]? <;> simp
    · simp only [hc]
      have : ((k == i + 1) && decide (k ≤ n)) = false := by
        rw [Bool.eq_false_iff]
        intro h
        apply hc
        simp only [Bool.and_eq_true, beq_iff_eq, decide_eq_true_eq] at h ⊢
        omega
      simp only [List.filter_cons, this, Bool.false_eq_true, if_false]

/-- position `i` of the substituted sentence: the requests for index `i + 1`, applied in the order given -/
theorem substituteSpec_get_fold (s : List Tok) (reqs : List (Nat × Str × Option Str)) (i : Nat) :
    (substituteSpec s reqs)[i]? =
      (s[i]?).map (fun tk => (reqs.filter (·.1 == i + 1)).foldl (fun tk r => substTok r tk) tk) := by
  unfold substituteSpec
  rw [substitute_fold_get s.length reqs s i]
  cases h : s[i]? with
  | none => rfl
  | some tk =>
    have hi : i < s.length := (List.getElem?_eq_some_iff.1 h).1
    have : reqs.filter (fun r => r.1 == i + 1 && decide (r.1 ≤ s.length)) = reqs.filter (·.1 == i + 1) := by
      apply List.filter_congr
      intro r _
      by_cases hr : r.1 = i + 1
      · have : decide (r.1 ≤ s.length) = true := by simp; omega
        simp [this]
      · have : (r.1 == i + 1) = false := by simpa using hr
        simp [this]
    rw [this]

theorem filter_eq_find_of_nodup {α} (key : α → Nat) (k : Nat) : ∀ (l : List α), (l.map key).Nodup →
    l.filter (fun a => key a == k) = (l.find? (fun a => key a == k)).toList
  | [], _ => rfl
  | x :: xs, h => by
    rw [List.map_cons, List.nodup_cons] at h
    by_cases hx : key x = k
    · have hb : (key x == k) = true := by simpa using hx
      simp only [List.filter_cons, hb, if_true, List.find?_cons, Option.toList_some, List.cons.injEq, true_and]
      rw [List.filter_eq_nil_iff]
      intro a ha hak
      apply h.1
      have : key a = k := by simpa using hak
      rw [hx, ← this]
      exact List.mem_map_of_mem ha
    · have hb : (key x == k) = false := by simpa using hx
      simp only [List.filter_cons, hb, Bool.false_eq_true, if_false, List.find?_cons]
      exact filter_eq_find_of_nodup key k xs h.2

/-- with one request per index: token `i + 1` gets the word (and, if given, the tag) of its request, every other
    token is unchanged -/
theorem substituteSpec_get_nodup (s : List Tok) (reqs : List (Nat × Str × Option Str))
    (hd : (reqs.map (·.1)).Nodup) (i : Nat) :
    (substituteSpec s reqs)[i]? =
      match reqs.find? (·.1 == i + 1) with
      | some r => (s[i]?).map (fun tk => (some r.2.1, r.2.2.getD tk.2))
      | none => s[i]? := by
  rw [substituteSpec_get_fold, filter_eq_find_of_nodup (fun r : Nat × Str × Option Str => r.1) (i + 1) reqs hd]
  cases reqs.find? (fun r => r.1 == i + 1) with
  | none => cases s[i]? <;> rfl
  | some r => cases s[i]? <;> rfl

/-! #### insertion -/

theorem insertSpec_append (s : List Tok) (a b : List (Nat × Str × Str)) :
    insertSpec s (a ++ b) = insertSpec (insertSpec s a) b := by
  induction a generalizing s with
  | nil => rfl
  | cons r rest ih =>
    obtain ⟨k, w, p⟩ := r
    simp only [List.cons_append, insertSpec]
    split <;> exact ih _

/-- `dropPositions` with the numbering started at `off` -/
def dpFrom (off : Nat) (l : List Tok) (ps : List Nat) : List Tok :=
  ((l.zipIdx off).filter fun (_, i) => !ps.contains (i + 1)).map (·.1)

theorem dpFrom_zero (l : List Tok) (ps : List Nat) : dpFrom 0 l ps = dropPositions l ps := rfl

theorem dpFrom_append (off : Nat) (a b : List Tok) (ps : List Nat) :
    dpFrom off (a ++ b) ps = dpFrom off a ps ++ dpFrom (off + a.length) b ps := by
  simp [dpFrom, List.zipIdx_append]

theorem dpFrom_all (off : Nat) (ps : List Nat) : ∀ (l : List Tok) (o : Nat), off ≤ o →
    (∀ p ∈ ps, p ≤ off ∨ o + l.length < p) → dpFrom o l ps = l
  | [], _, _, _ => rfl
  | x :: xs, o, ho, h => by
    have ih := dpFrom_all off ps xs (o + 1) (by omega) (by
      intro p hp
      rcases h p hp with h1 | h1
      · exact Or.inl h1
      · right; simp only [List.length_cons] at h1; omega)
    have hx : ps.contains (o + 1) = false := by
      rw [Bool.eq_false_iff]
      intro hc
      have := h (o + 1) (by simpa using hc)
      simp only [List.length_cons] at this
      omega
    simp only [dpFrom, List.zipIdx_cons, List.filter_cons, hx, Bool.not_false, if_true, List.map_cons]
    simp only [dpFrom] at ih
    rw [ih]

theorem dpFrom_congr (o : Nat) (l : List Tok) (ps qs : List Nat)
    (h : ∀ j, o < j → j ≤ o + l.length → ps.contains j = qs.contains j) : dpFrom o l ps = dpFrom o l qs := by
  induction l generalizing o with
  | nil => rfl
  | cons x xs ih =>
    have hx := h (o + 1) (by omega) (by simp)
    have := ih (o + 1) (by
      intro j h1 h2
      exact h j (by omega) (by simp only [List.length_cons]; omega))
    simp only [dpFrom, List.zipIdx_cons, List.filter_cons, hx] at this ⊢
    split <;> simp only [List.map_cons, this]

theorem rev_ind {α} {P : List α → Prop} (hnil : P []) (hsnoc : ∀ l a, P l → P (l ++ [a])) (l : List α) : P l := by
  have : ∀ l : List α, P l.reverse := by
    intro l
    induction l with
    | nil => exact hnil
    | cons a l ih => rw [List.reverse_cons]; exact hsnoc _ _ ih
  have h := this l.reverse
  rwa [List.reverse_reverse] at h

/-- all requests accepted (strictly increasing indices, each at most one past the end of the sentence as it
    is then): every inserted token sits at its requested position, and removing the requested positions gives
    back the original sentence -/
theorem insertSpec_all (s : List Tok) : ∀ (reqs : List (Nat × Str × Str)),
    (reqs.map (·.1)).Pairwise (· < ·) →
    (∀ j (h : j < reqs.length), 1 ≤ reqs[j].1 ∧ reqs[j].1 ≤ s.length + j + 1) →
    (insertSpec s reqs).length = s.length + reqs.length ∧
    (∀ r ∈ reqs, (insertSpec s reqs)[r.1 - 1]? = some (some r.2.1, r.2.2)) ∧
    dropPositions (insertSpec s reqs) (reqs.map (·.1)) = s := by
  intro reqs
  induction reqs using rev_ind with
  | hnil =>
    intro _ _
    refine ⟨rfl, by simp, ?_⟩
    simp only [insertSpec, List.map_nil]
    exact dpFrom_all 0 [] s 0 (Nat.le_refl _) (by simp)
  | hsnoc pre r ih =>
    intro hs hr
    obtain ⟨k, w, p⟩ := r
    rw [List.map_append, List.pairwise_append] at hs
    obtain ⟨hs1, _, hs3⟩ := hs
    have hlt : ∀ q ∈ pre, q.1 < k := fun q hq => hs3 q.1 (List.mem_map_of_mem hq) k (by simp)
    obtain ⟨ihl, ihg, ihd⟩ := ih hs1 (by
      intro j hj
      have := hr j (by simp; omega)
      rwa [List.getElem_append_left hj] at this)
    have hge : ∀ q ∈ pre, 1 ≤ q.1 := by
      intro q hq
      obtain ⟨j, hj, rfl⟩ := List.getElem_of_mem hq
      have := hr j (by simp; omega)
      rw [List.getElem_append_left hj] at this
      exact this.1
    have hk := hr pre.length (by simp)
    rw [List.getElem_append_right (Nat.le_refl _)] at hk
    simp only [Nat.sub_self, List.getElem_cons_zero] at hk
    have hF : (insertSpec s pre).length = s.length + pre.length := ihl
    have hacc : (k == 0 || decide (k > (insertSpec s pre).length + 1)) = false := by
      rw [hF]; simp; omega
    have hfin : insertSpec s (pre ++ [(k, w, p)]) =
        (insertSpec s pre).take (k - 1) ++ [(some w, p)] ++ (insertSpec s pre).drop (k - 1) := by
      rw [insertSpec_append]
      simp only [insertSpec, hacc, Bool.false_eq_true, if_false]
    have htl : ((insertSpec s pre).take (k - 1)).length = k - 1 := by
      rw [List.length_take, hF]; omega
    refine ⟨?_, ?_, ?_⟩
    · rw [hfin]
      simp only [List.length_append, List.length_take, List.length_drop, List.length_cons, List.length_nil, hF]
      omega
    · intro q hq
      rw [hfin]
      rcases List.mem_append.1 hq with hq | hq
      · have h1 := hlt q hq
        have h1' := hge q hq
        have h0 := ihg q hq
        rw [List.append_assoc, List.getElem?_append_left (by rw [htl]; have := (List.getElem?_eq_some_iff.1 h0).1; omega),
          List.getElem?_take_of_lt (by have := (List.getElem?_eq_some_iff.1 h0).1; omega)]
        exact h0
      · simp only [List.mem_singleton] at hq
        subst hq
        rw [List.append_assoc, List.getElem?_append_right (by rw [htl]; exact Nat.le_refl _), htl]
        simp
    · rw [hfin, ← dpFrom_zero, dpFrom_append, dpFrom_append]
      simp only [Nat.zero_add, htl, List.length_append, List.length_cons, List.length_nil]
      -- the inserted token is dropped
      have hmid : dpFrom (k - 1) [(some w, p)] (List.map (·.1) (pre ++ [(k, w, p)])) = [] := by
        have : (List.map (·.1) (pre ++ [(k, w, p)])).contains (k - 1 + 1) = true := by
          rw [show k - 1 + 1 = k by omega]
          simp
        simp only [dpFrom, List.zipIdx_cons, List.zipIdx_nil, List.filter_cons, this, Bool.not_true,
          Bool.false_eq_true, if_false, List.filter_nil, List.map_nil]
      -- behind it nothing is dropped
      have hback : dpFrom (k - 1 + 1) ((insertSpec s pre).drop (k - 1)) (List.map (·.1) (pre ++ [(k, w, p)])) =
          (insertSpec s pre).drop (k - 1) := by
        apply dpFrom_all (k - 1 + 1) _ _ _ (Nat.le_refl _)
        intro q hq
        left
        simp only [List.map_append, List.map_cons, List.map_nil, List.mem_append, List.mem_singleton] at hq
        rcases hq with hq | hq
        · obtain ⟨q0, hq0, rfl⟩ := List.mem_map.1 hq
          have := hlt q0 hq0; omega
        · omega
      -- in front of it the new request plays no part
      have hfront : dpFrom 0 ((insertSpec s pre).take (k - 1)) (List.map (·.1) (pre ++ [(k, w, p)])) =
          dpFrom 0 ((insertSpec s pre).take (k - 1)) (List.map (·.1) pre) := by
        apply dpFrom_congr
        intro j _ hj
        rw [htl] at hj
        have hjk : (j == k) = false := by simp; omega
        simp only [List.map_append, List.map_cons, List.map_nil, List.contains_append, List.contains_cons,
          hjk, List.contains_nil, Bool.or_false]
      rw [hmid, hback, hfront, List.append_nil]
      -- compare with the sentence before this request
      have hold : dropPositions (insertSpec s pre) (List.map (·.1) pre) =
          dpFrom 0 ((insertSpec s pre).take (k - 1)) (List.map (·.1) pre) ++ (insertSpec s pre).drop (k - 1) := by
        conv => lhs; rw [← List.take_append_drop (k - 1) (insertSpec s pre), ← dpFrom_zero, dpFrom_append]
        congr 1
        rw [Nat.zero_add, htl]
        apply dpFrom_all (k - 1) _ _ _ (Nat.le_refl _)
        intro q hq
        left
        obtain ⟨q0, hq0, rfl⟩ := List.mem_map.1 hq
        have := hlt q0 hq0; omega
      rw [← hold, ihd]

/-- requests beyond the end of the sentence are ignored without touching any token -/
theorem insertSpec_beyond (s : List Tok) (reqs : List (Nat × Str × Str))
    (h : ∀ r ∈ reqs, r.1 = 0 ∨ r.1 > s.length + 1) : insertSpec s reqs = s := by
  induction reqs with
  | nil => rfl
  | cons r rest ih =>
    obtain ⟨k, w, p⟩ := r
    have hk := h (k, w, p) List.mem_cons_self
    have : (k == 0 || decide (k > s.length + 1)) = true := by simpa using hk
    simp only [insertSpec, this, if_true]
    exact ih (fun r hr => h r (List.mem_cons_of_mem _ hr))

/-! ### C11: which constituents survive a deletion -/

mutual
/-- every constituent with its label and its token numbers, storage preorder -/
def consInfo : Tree → List (Str × List Nat)
  | leaf _ _ => []
  | node f ks => (f.label, (leavesL ks).map num) :: consInfoL ks
def consInfoL : List Tree → List (Str × List Nat)
  | [] => []
  | t :: ts => consInfo t ++ consInfoL ts
end

/-- what deleting token `k` does to one constituent: gone when `k` was its only token -/
def stepInfo (k : Nat) (e : Str × List Nat) : Option (Str × List Nat) :=
  if e.2.any (· != k) then some (e.1, (e.2.filter (· ≠ k)).map (sh k)) else none

mutual
theorem consInfo_labels : (t : Tree) → (consInfo t).map (·.1) = consLabels t
  | leaf _ _ => rfl
  | node f ks => by simp only [consInfo, consLabels, List.map_cons, consInfoL_labels ks]
theorem consInfoL_labels : (ks : List Tree) → (consInfoL ks).map (·.1) = consLabelsL ks
  | [] => rfl
  | t :: ts => by simp only [consInfoL, consLabelsL, List.map_append, consInfo_labels t, consInfoL_labels ts]
end

mutual
theorem consInfo_subtrees : (t : Tree) →
    consInfo t = t.subtrees.filterMap (fun s => if s.isLeaf then none else some (s.fields.label, s.leafNums))
  | leaf _ _ => by simp [consInfo, subtrees]
  | node f ks => by
    simp only [consInfo, subtrees, List.filterMap_cons, isLeaf_node, Bool.false_eq_true, if_false,
      fields_node, leafNums_node', consInfoL_subtrees ks]
theorem consInfoL_subtrees : (ks : List Tree) →
    consInfoL ks = (subtreesL ks).filterMap (fun s => if s.isLeaf then none else some (s.fields.label, s.leafNums))
  | [] => rfl
  | t :: ts => by
    simp only [consInfoL, subtreesL, List.filterMap_append, consInfo_subtrees t, consInfoL_subtrees ts]
end

theorem any_ne_false_of_filter_nil (k : Nat) (l : List Nat) (h : l.filter (· ≠ k) = []) :
    l.any (· != k) = false := by
  rw [List.any_eq_false]
  intro a ha hne
  have : a ∈ l.filter (· ≠ k) := List.mem_filter.2 ⟨ha, by simpa using hne⟩
  rw [h] at this; cases this

theorem any_ne_true_of_filter_ne_nil (k : Nat) (l : List Nat) (h : l.filter (· ≠ k) ≠ []) :
    l.any (· != k) = true := by
  obtain ⟨a, ha⟩ := List.exists_mem_of_ne_nil _ h
  obtain ⟨h1, h2⟩ := List.mem_filter.1 ha
  exact List.any_eq_true.2 ⟨a, h1, by simpa using h2⟩

theorem leavesL_ne_nil_of_noEmpty : ∀ (ks : List Tree), ks ≠ [] → noEmptyL ks = true → leavesL ks ≠ []
  | [], h, _ => absurd rfl h
  | t :: ts, _, hne => by
    simp only [noEmptyL, Bool.and_eq_true] at hne
    have := noEmpty_leafNums_ne_nil t hne.1
    intro e
    simp only [leavesL, List.append_eq_nil_iff] at e
    apply this
    simp [leafNums, e.1]

mutual
theorem delLeaf_consInfo (k : Nat) : (t : Tree) → t.noEmpty = true →
    (match delLeaf k t with | some t' => consInfo t' | none => []) = (consInfo t).filterMap (stepInfo k)
  | leaf n f, _ => by
    by_cases h : n = k <;> simp [delLeaf, h, consInfo]
  | node f ks, hne => by
    obtain ⟨hks, hall⟩ := (noEmpty_node f ks).1 hne
    have hnl := (noEmptyL_iff ks).2 hall
    have ih := delLeafL_consInfo k ks hnl
    have hlv := delLeafL_leaves k ks
    have hnum : (leavesL (delLeafL k ks)).map num = (((leavesL ks).map num).filter (· ≠ k)).map (sh k) := by
      rw [hlv, filter_map_num_sh]; rfl
    have hks' : ks.isEmpty = false := by simpa using hks
    simp only [delLeaf, consInfo, List.filterMap_cons]
    by_cases hc : (delLeafL k ks).isEmpty = true
    · -- pruned: all tokens below were `k`
      rw [List.isEmpty_iff] at hc
      have h0 : ((leavesL ks).map num).filter (· ≠ k) = [] := by
        have := hnum
        rw [hc] at this
        simp only [leavesL, List.map_nil] at this
        exact List.map_eq_nil_iff.1 this.symm
      have hany := any_ne_false_of_filter_nil k _ h0
      rw [hc] at ih
      simp only [consInfoL] at ih
      simp only [hc, List.isEmpty_nil, hks', Bool.not_false, Bool.and_self, if_true, stepInfo, hany,
        Bool.false_eq_true, if_false, ← ih]
    · have hc' : (delLeafL k ks).isEmpty = false := by simpa using hc
      have hne' : delLeafL k ks ≠ [] := by simpa using hc
      have h0 : ((leavesL ks).map num).filter (· ≠ k) ≠ [] := by
        intro e
        rw [e] at hnum
        simp only [List.map_nil, List.map_eq_nil_iff] at hnum
        exact leavesL_ne_nil_of_noEmpty _ hne' (delLeafL_noEmpty k ks hnl) hnum
      have hany := any_ne_true_of_filter_ne_nil k _ h0
      simp only [hc', Bool.false_and, Bool.false_eq_true, if_false, consInfo, stepInfo, hany, if_true, hnum, ih]
theorem delLeafL_consInfo (k : Nat) : (ks : List Tree) → noEmptyL ks = true →
    consInfoL (delLeafL k ks) = (consInfoL ks).filterMap (stepInfo k)
  | [], _ => rfl
  | t :: ts, h => by
    simp only [noEmptyL, Bool.and_eq_true] at h
    have ih1 := delLeaf_consInfo k t h.1
    have ih2 := delLeafL_consInfo k ts h.2
    simp only [delLeafL, consInfoL, List.filterMap_append]
    cases hd : delLeaf k t with
    | some t' => rw [hd] at ih1; simp only [consInfoL, ih1, ih2]
    | none => rw [hd] at ih1; simp only [← ih1, ih2, List.nil_append]
end

theorem filterMap_congr' {α β} (f g : α → Option β) : ∀ (l : List α), (∀ a ∈ l, f a = g a) →
    l.filterMap f = l.filterMap g
  | [], _ => rfl
  | x :: xs, h => by
    simp only [List.filterMap_cons, h x List.mem_cons_self,
      filterMap_congr' f g xs (fun a ha => h a (List.mem_cons_of_mem _ ha))]

mutual
theorem consInfo_nonempty : (t : Tree) → t.noEmpty = true → ∀ e ∈ consInfo t, e.2 ≠ []
  | leaf _ _, _ => by simp [consInfo]
  | node f ks, hne => by
    obtain ⟨hks, hall⟩ := (noEmpty_node f ks).1 hne
    have hnl := (noEmptyL_iff ks).2 hall
    intro e he
    simp only [consInfo, List.mem_cons] at he
    rcases he with rfl | he
    · intro h0
      exact leavesL_ne_nil_of_noEmpty ks hks hnl (List.map_eq_nil_iff.1 h0)
    · exact consInfoL_nonempty ks hnl e he
theorem consInfoL_nonempty : (ks : List Tree) → noEmptyL ks = true → ∀ e ∈ consInfoL ks, e.2 ≠ []
  | [], _ => by simp [consInfoL]
  | t :: ts, h => by
    simp only [noEmptyL, Bool.and_eq_true] at h
    intro e he
    simp only [consInfoL, List.mem_append] at he
    rcases he with he | he
    · exact consInfo_nonempty t h.1 e he
    · exact consInfoL_nonempty ts h.2 e he
end

/-- one deletion followed by the test for the remaining ones is the test for all of them -/
theorem stepInfo_bind (off k : Nat) (rest : List Nat) (hoff : off < k) (hr : ∀ b ∈ rest, k < b)
    (e : Str × List Nat) :
    (stepInfo (k - off) e).bind (fun e1 =>
        if e1.2.any (fun n => !(rest.map (· - (off + 1))).contains n) then some e1.1 else none) =
      if e.2.any (fun n => !((k :: rest).map (· - off)).contains n) then some e.1 else none := by
  have hself : ((k :: rest).map (· - off)).contains (k - off) = true := by simp
  unfold stepInfo
  by_cases hany : e.2.any (· != k - off) = true
  · simp only [hany, if_true, Option.bind_some, List.any_map, List.any_filter]
    have : e.2.any (fun n => decide (n ≠ k - off) &&
          ((fun n => !(rest.map (· - (off + 1))).contains n) ∘ sh (k - off)) n) =
        e.2.any (fun n => !((k :: rest).map (· - off)).contains n) := by
      apply List.any_congr rfl
      intro n
      by_cases hn : n = k - off
      · subst hn; rw [hself]; simp
      · have := contains_shift off k n rest hoff hr hn
        simp only [Function.comp_apply, this]
        simp [hn]
    rw [this]
  · have hany' : e.2.any (· != k - off) = false := by simpa using hany
    simp only [hany', Bool.false_eq_true, if_false, Option.bind_none]
    have : e.2.any (fun n => !((k :: rest).map (· - off)).contains n) = false := by
      rw [List.any_eq_false] at hany' ⊢
      intro n hn
      have : n = k - off := by simpa using hany' n hn
      rw [this, hself]; simp
    rw [this]; rfl

/-- the constituents below the root that survive the deletion of the tokens `nums` (original numbers,
    ascending): those with a token that is not deleted -/
theorem deleteMany_consInfo : ∀ (nums : List Nat) (f : Fields) (ks : List Tree) (off : Nat),
    noEmptyL ks = true → nums.Pairwise (· < ·) → (∀ k ∈ nums, off < k) →
    ∃ ks', (nums.foldl (fun (acc : Tree × Nat) k => (deleteTerminal acc.1 (k - acc.2), acc.2 + 1)) (node f ks, off)).1
        = node f ks' ∧
      (consInfoL ks').map (·.1) = (consInfoL ks).filterMap (fun e =>
        if e.2.any (fun n => !(nums.map (· - off)).contains n) then some e.1 else none)
  | [], f, ks, off, hne, _, _ => by
    refine ⟨ks, rfl, ?_⟩
    simp only [List.map_nil, List.contains_nil, Bool.not_false]
    have : (consInfoL ks).filterMap (fun e => if e.2.any (fun _ => true) = true then some e.1 else none) =
        (consInfoL ks).filterMap (fun e => some e.1) := by
      apply filterMap_congr'
      intro e he
      have := consInfoL_nonempty ks hne e he
      have : e.2.any (fun _ => true) = true := by
        cases h2 : e.2 with
        | nil => exact absurd h2 this
        | cons a r => simp
      simp only [this, if_true]
    rw [this, List.filterMap_eq_map']
  | k :: rest, f, ks, off, hne, hp, hb => by
    have hp' := List.pairwise_cons.1 hp
    have hk := hb k List.mem_cons_self
    obtain ⟨ks', h1, h2⟩ := deleteMany_consInfo rest f (delLeafL (k - off) ks) (off + 1)
      (delLeafL_noEmpty _ ks hne) hp'.2 (fun b hbr => by have := hp'.1 b hbr; omega)
    refine ⟨ks', ?_, ?_⟩
    · simp only [List.foldl_cons]; exact h1
    · rw [h2, delLeafL_consInfo _ ks hne, List.filterMap_filterMap]
      apply filterMap_congr'
      intro e _
      exact stepInfo_bind off k rest hk hp'.1 e


/-! ### C11: which constituents survive trace deletion -/

mutual
theorem modifyLeaf_consInfo (k : Nat) (g : Fields → Fields) : (t : Tree) →
    consInfo (modifyLeaf k g t) = consInfo t
  | leaf n f => by simp only [modifyLeaf]; split <;> rfl
  | node f ks => by
    simp only [modifyLeaf, consInfo, modifyLeafL_consInfo k g ks, modifyLeafL_leaves, List.map_map]
    congr 2
    apply List.map_congr_left
    intro a _
    simp
theorem modifyLeafL_consInfo (k : Nat) (g : Fields → Fields) : (ks : List Tree) →
    consInfoL (modifyLeafL k g ks) = consInfoL ks
  | [] => rfl
  | t :: ts => by
    simp only [modifyLeafL, consInfoL, modifyLeaf_consInfo k g t, modifyLeafL_consInfo k g ts]
end

theorem traces_fold_consInfo (o : TraceOpts) : ∀ (nums : List Nat) (f : Fields) (ks : List Tree) (off : Nat),
    Numbered (node f ks) → noEmptyL ks = true → nums.Pairwise (· < ·) →
    (∀ k ∈ nums, off < k ∧ k - off ≤ (node f ks).leafNums.length) →
    ∃ ks', (nums.foldl (traceStep o) (node f ks, off)).1 = node f ks' ∧
      (consInfoL ks').map (·.1) = (consInfoL ks).filterMap (fun e =>
        if e.2.any (fun n => !((nums.filter (fun k => ((node f ks).findLeaf (k - off)).any (delP o))).map
            (· - off)).contains n) then some e.1 else none)
  | [], f, ks, off, _, hne, _, _ => by
    have h := deleteMany_consInfo [] f ks off hne List.Pairwise.nil (by simp)
    obtain ⟨ks', h1, h2⟩ := h
    simp only [List.foldl_nil] at h1
    injection h1 with _ h1
    subst h1
    exact ⟨ks, rfl, h2⟩
  | k :: rest, f, ks, off, hN, hne, hp, hb => by
    have hp' := List.pairwise_cons.1 hp
    have hk := hb k List.mem_cons_self
    have hmem : k - off ∈ (node f ks).leafNums := (hN.mem _).2 (by omega)
    simp only [List.foldl_cons]
    cases hf : (node f ks).findLeaf (k - off) with
    | none =>
      obtain ⟨l, hl, _⟩ := findLeaf_some_of_mem _ hN (k - off) hmem
      rw [hl] at hf; cases hf
    | some l =>
      by_cases hd : delP o l = true
      · have hd' : (o.keepall || o.keep.contains (traceLabel o (l.fields.word.getD []))) = false := by
          simpa [delP] using hd
        have e : traceStep o (node f ks, off) k = (node f (delLeafL (k - off) ks), off + 1) := by
          simp only [traceStep, hf, hd']; rfl
        have hN1 : Numbered (node f (delLeafL (k - off) ks)) := deleteTerminal_numbered _ (k - off) hN hmem
        have hl1 : (node f (delLeafL (k - off) ks)).leafNums.length = (node f ks).leafNums.length - 1 :=
          deleteTerminal_length _ (k - off) hN hmem
        obtain ⟨ks', h1, h2⟩ := traces_fold_consInfo o rest f (delLeafL (k - off) ks) (off + 1) hN1
          (delLeafL_noEmpty _ ks hne) hp'.2 (by
            intro b hbr
            have h1 := hp'.1 b hbr
            have h2 := hb b (List.mem_cons_of_mem _ hbr)
            rw [hl1]; omega)
        refine ⟨ks', by rw [e]; exact h1, ?_⟩
        have hfc : rest.filter (fun b => ((node f (delLeafL (k - off) ks)).findLeaf (b - (off + 1))).any (delP o))
            = rest.filter (fun b => ((node f ks).findLeaf (b - off)).any (delP o)) := by
          apply List.filter_congr
          intro b hbr
          have h1 := hp'.1 b hbr
          have e2 : b - (off + 1) = (b - off) - 1 := by omega
          have := findLeaf_deleteTerminal_gt (k - off) (b - off) (node f ks) rfl (by omega)
          simp only [deleteTerminal] at this
          rw [e2, this, Option.any_map]
          simp
        rw [h2, hfc, delLeafL_consInfo _ ks hne, List.filterMap_filterMap]
        apply filterMap_congr'
        intro e0 _
        have hsub : ∀ b ∈ rest.filter (fun b => ((node f ks).findLeaf (b - off)).any (delP o)), k < b :=
          fun b hb' => hp'.1 b (List.mem_filter.1 hb').1
        have := stepInfo_bind off k _ hk.1 hsub e0
        simp only [List.filter_cons, hf, Option.any_some, hd, if_true]
        exact this
      · have hd0 : delP o l = false := by simpa using hd
        have hd' : (o.keepall || o.keep.contains (traceLabel o (l.fields.word.getD []))) = true := by
          unfold delP at hd0
          cases hx : (o.keepall || o.keep.contains (traceLabel o (l.fields.word.getD [])))
          · rw [hx] at hd0; cases hd0
          · rfl
        obtain ⟨g, e⟩ : ∃ g, traceStep o (node f ks, off) k = (node f (modifyLeafL (k - off) g ks), off) :=
          ⟨_, by simp only [traceStep, hf, hd']; rfl⟩
        have hN1 : Numbered (node f (modifyLeafL (k - off) g ks)) := modifyLeaf_numbered (k - off) g _ hN
        obtain ⟨ks', h1, h2⟩ := traces_fold_consInfo o rest f (modifyLeafL (k - off) g ks) off hN1
          (by rw [modifyLeafL_noEmpty]; exact hne) hp'.2 (by
            intro b hbr
            have : (node f (modifyLeafL (k - off) g ks)).leafNums = (node f ks).leafNums :=
              modifyLeaf_leafNums (k - off) g (node f ks)
            rw [this]
            exact hb b (List.mem_cons_of_mem _ hbr))
        refine ⟨ks', by rw [e]; exact h1, ?_⟩
        have hfc : rest.filter (fun b => ((node f (modifyLeafL (k - off) g ks)).findLeaf (b - off)).any (delP o))
            = rest.filter (fun b => ((node f ks).findLeaf (b - off)).any (delP o)) := by
          apply List.filter_congr
          intro b hbr
          have h1 := hp'.1 b hbr
          have := findLeaf_modifyLeaf_ne (k - off) (b - off) g (node f ks) (by omega)
          simp only [modifyLeaf] at this
          rw [this]
        rw [h2, hfc, modifyLeafL_consInfo]
        simp only [List.filter_cons, hf, Option.any_some, hd0, Bool.false_eq_true, if_false]

/-- the numbers the fold deletes are the trace positions of the specification -/
theorem traces_deleted_eq (o : TraceOpts) (t : Tree) (hN : Numbered t) :
    ((t.terminals.filter fun l => l.fields.label == NONE_POS).map num).filter
        (fun k => (t.findLeaf (k - 0)).any (delP o)) = tracePositions o t := by
  unfold tracePositions
  rw [List.filter_map, List.filter_filter]
  congr 1
  apply List.filter_congr
  intro l hl
  have := findLeaf_of_mem_nodup t l hN.nodup ((mem_terminals t l).1 hl)
  simp only [Function.comp_apply, Nat.sub_zero, this, Option.any_some, delP]
  rw [Bool.and_comm]


section C14
open TT.Lemmas.Binarize TT.Lemmas.C20 TT.Lemmas.Collapse

/-! ### C14: rejection anywhere -/

/-- a successful run succeeded on every subtree -/
theorem binarizeAux_ok_subtrees (bare : Bool) (t : Tree) :
    ∀ t', binarizeAux bare t = .ok t' → ∀ s ∈ t.subtrees, ∃ s', binarizeAux bare s = .ok s' := by
  induction t using TT.Lemmas.WF.tree_ind with
  | hl n f =>
    intro t' h s hs
    simp only [subtrees, List.mem_singleton] at hs
    subst hs; exact ⟨t', h⟩
  | hn f ks ih =>
    intro t' h s hs
    rw [TT.Lemmas.WF.mem_subtrees_node] at hs
    rcases hs with rfl | ⟨k, hk, hsk⟩
    · exact ⟨t', h⟩
    · exact ih k hk _ ((binarizeAux_node_ok bare f ks t' h).1 k hk) s hsk

theorem binChain_error_kind (bf : Fields) : ∀ (fuel : Nat) (right : Bool) (rem : List Tree) (e : Err),
    binChain bf right rem fuel = .error e → e = .valueError
  | 0, _, _, _, h => by simp [binChain] at h
  | fuel + 1, right, rem, e, h => by
    by_cases hs : rem.length ≤ 2
    · rw [binChain_short bf right rem hs] at h; cases h
    · cases rem with
      | nil => simp at hs
      | cons r0 rest =>
        rw [binChain_cons bf right r0 rest fuel (by omega)] at h
        split at h
        · cases h; rfl
        · split at h
          · rename_i e' he
            cases h
            exact binChain_error_kind bf fuel _ _ _ he
          · cases h

mutual
theorem binarizeAux_error_kind (bare : Bool) : (t : Tree) → (e : Err) →
    binarizeAux bare t = .error e → e = .valueError
  | leaf n f, e, h => by simp [binarizeAux] at h
  | node f ks, e, h => by
    rw [binarizeAux] at h
    cases h1 : binarizeAuxL bare ks with
    | error e1 =>
      rw [h1] at h
      cases h
      exact binarizeAuxL_error_kind bare ks e h1
    | ok ks' =>
      rw [h1] at h
      simp only at h
      split at h
      · cases h
      · split at h
        · cases h; rfl
        · split at h
          · rename_i e' he
            cases h
            exact binChain_error_kind _ _ _ _ _ he
          · cases h
theorem binarizeAuxL_error_kind (bare : Bool) : (ks : List Tree) → (e : Err) →
    binarizeAuxL bare ks = .error e → e = .valueError
  | [], e, h => by simp [binarizeAuxL] at h
  | t :: ts, e, h => by
    rw [binarizeAuxL] at h
    cases h1 : binarizeAux bare t with
    | error e1 =>
      rw [h1] at h
      simp only at h
      cases h
      exact binarizeAux_error_kind bare t e h1
    | ok a =>
      cases h2 : binarizeAuxL bare ts with
      | error e2 =>
        rw [h1, h2] at h
        simp only at h
        cases h
        exact binarizeAuxL_error_kind bare ts e h2
      | ok b => rw [h1, h2] at h; cases h
end

theorem binarizeAux_rejects_anywhere (bare : Bool) (t : Tree)
    (h : ∃ s ∈ t.subtrees, ∃ f ks, s = node f ks ∧ 2 < ks.length ∧ ∀ k ∈ ks, k.fields.head ≠ some true) :
    binarizeAux bare t = .error .valueError := by
  obtain ⟨s, hs, f, ks, rfl, h3, hh⟩ := h
  cases hr : binarizeAux bare t with
  | error e => rw [binarizeAux_error_kind bare t e hr]
  | ok t' =>
    obtain ⟨s', hs'⟩ := binarizeAux_ok_subtrees bare t t' hr _ hs
    obtain ⟨e, he⟩ := binarizeAux_rejects bare f ks h3 hh
    rw [hs'] at he; cases he

/-! ### C14: what the fresh nodes carry -/

theorem BinOut.all {bf : Fields} (Q : Tree → Prop) (hQ : ∀ inner, (∀ k ∈ inner, Q k) → Q (node bf inner))
    {rem out : List Tree} (h : BinOut bf rem out) (hr : ∀ k ∈ rem, Q k) : ∀ k ∈ out, Q k := by
  induction h with
  | done => exact hr
  | step rem rem' inner child hp hin ih =>
    have ih' := ih (fun k hk => hr k (hp.subset (List.mem_cons_of_mem _ hk)))
    intro k hk
    simp only [List.mem_cons, List.not_mem_nil, or_false] at hk
    rcases hk with rfl | rfl
    · exact hQ inner ih'
    · exact hr _ (hp.subset List.mem_cons_self)

theorem atFieldsOKL_iff (mk : Str → Fields) (pl : Str) : ∀ ks : List Tree,
    atFieldsOKL mk pl ks = true ↔ ∀ k ∈ ks, atFieldsOK mk pl k = true
  | [] => by simp [atFieldsOKL]
  | t :: ts => by simp [atFieldsOKL, atFieldsOKL_iff mk pl ts]

theorem binarize_atFields (bare : Bool) : ∀ (t t' : Tree), binarizeAux bare t = .ok t' →
    noAtLabels t = true → ∀ pl, atFieldsOK (binFields bare) pl t' = true := by
  refine binarize_induct bare
    (fun t t' => noAtLabels t = true → ∀ pl, atFieldsOK (binFields bare) pl t' = true) ?_ ?_ ?_
  · intro n f _ pl; rfl
  · intro f ks _ hP _ hat pl
    obtain ⟨hat1, hat2⟩ := (noAtLabels_node f ks).1 hat
    have hna : (f.label.head? == some '@') = false := by
      simpa [notAt] using hat1
    simp only [atFieldsOK, hna, Bool.false_eq_true, if_false]
    rw [atFieldsOKL_iff]
    intro k hk
    obtain ⟨k0, hk0, rfl⟩ := List.mem_map.1 hk
    exact hP k0 hk0 (hat2 k0 hk0) _
  · intro f ks two _ hP _ hout hat pl
    obtain ⟨hat1, hat2⟩ := (noAtLabels_node f ks).1 hat
    have hna : (f.label.head? == some '@') = false := by
      simpa [notAt] using hat1
    simp only [atFieldsOK, hna, Bool.false_eq_true, if_false]
    rw [atFieldsOKL_iff]
    refine BinOut.all (fun k => atFieldsOK (binFields bare) f.label k = true) ?_ hout ?_
    · intro inner hin
      have hb : ((binFields bare f.label).label.head? == some '@') = true := by simp [binFields]
      simp only [atFieldsOK, hb, if_true, Bool.and_eq_true, beq_self_eq_true, true_and]
      exact (atFieldsOKL_iff _ _ _).2 hin
    · intro k hk
      obtain ⟨k0, hk0, rfl⟩ := List.mem_map.1 ((mem_sortBy _ _ _).1 hk)
      exact hP k0 hk0 (hat2 k0 hk0) _

/-- the label of the fresh node, on pieces: `@` followed by the parent label without its co-index piece -/
theorem binFields_label_render (l : Str) :
    (binFields false l).label = '@' :: render DEFAULT_GF_SEP false false ((decompose DEFAULT_GF_SEP l).erase .co) := by
  obtain ⟨lab, gf, gfP, gap, co, hm, hf2, hp, hd⟩ := parse_decompose DEFAULT_GF_SEP l
  simp only [binFields, Bool.false_eq_true, if_false]
  rw [hp, hd]
  congr 1
  exact format_render DEFAULT_GF_SEP lab gf gfP gap [] hm _ false false hf2


/-- from the walk to a statement about single nodes: every `@` constituent carries `mk` of the label handed
    down or of a constituent label of the tree that is not an `@` label -/
theorem atFieldsOK_sources (mk : Str → Fields) (t : Tree) :
    ∀ pl, atFieldsOK mk pl t = true → ∀ s ∈ t.subtrees, isBinNode s = true →
      s.fields = mk pl ∨ ∃ l ∈ (consLabels t).filter notAt, s.fields = mk l := by
  induction t using tree_ind with
  | hl n f =>
    intro pl _ s hs hb
    simp only [subtrees, List.mem_singleton] at hs
    subst hs; cases hb
  | hn f ks ih =>
    intro pl h s hs hb
    rw [mem_subtrees_node] at hs
    simp only [atFieldsOK] at h
    by_cases hat : (f.label.head? == some '@') = true
    · simp only [hat, if_true, Bool.and_eq_true, beq_iff_eq] at h
      rcases hs with rfl | ⟨k, hk, hsk⟩
      · exact Or.inl h.1
      · rcases ih k hk pl ((atFieldsOKL_iff _ _ _).1 h.2 k hk) s hsk hb with h1 | ⟨l, hl, h2⟩
        · exact Or.inl h1
        · refine Or.inr ⟨l, ?_, h2⟩
          rw [consLabels_node_filter]
          exact List.mem_append_right _ (List.mem_flatMap.2 ⟨k, hk, hl⟩)
    · simp only [hat] at h
      have hna : notAt f.label = true := by simpa [notAt] using hat
      rcases hs with rfl | ⟨k, hk, hsk⟩
      · simp only [isBinNode] at hb; exact absurd hb hat
      · rcases ih k hk f.label ((atFieldsOKL_iff _ _ _).1 h k hk) s hsk hb with h1 | ⟨l, hl, h2⟩
        · refine Or.inr ⟨f.label, ?_, h1⟩
          rw [consLabels_node_filter]
          exact List.mem_append_left _ (by simp [hna])
        · refine Or.inr ⟨l, ?_, h2⟩
          rw [consLabels_node_filter]
          exact List.mem_append_right _ (List.mem_flatMap.2 ⟨k, hk, hl⟩)

/-! ### C14: token labels after collapsing -/

mutual
theorem tokenLabels_collapse : (t : Tree) →
    (collapse t).leaves.map (·.fields.label) = tokenLabels t
  | .leaf n f => by simp [collapse, leaves, tokenLabels]
  | .node f [] => by simp [collapse, collapseL, leaves, leavesL, tokenLabels, tokenChain, tokenLabelsL]
  | .node f [k] => by
    rw [collapse, tokenLabels]; exact tokenLabels_collapseInto f k
  | .node f (k1 :: k2 :: ks) => by
    rw [collapse.eq_3 _ _ (not_singleton_of_two k1 k2 ks), tokenLabels,
      tokenChain.eq_3 _ _ (by intro n g h; simp at h) (by intro g l h; simp at h)]
    simp only [leaves]; exact tokenLabelsL_collapseL _
theorem tokenLabels_collapseInto (f : Fields) : (t : Tree) →
    (collapseInto f t).leaves.map (·.fields.label) = tokenChain f.label [t]
  | .leaf n g => by simp [collapseInto, leaves, tokenChain, joinPlus]
  | .node g [] => by
    simp [collapseInto, collapseL, leaves, leavesL, tokenChain, tokenLabelsL]
  | .node g [k] => by
    rw [collapseInto, tokenChain]; exact tokenLabels_collapseInto _ k
  | .node g (k1 :: k2 :: ks) => by
    rw [collapseInto.eq_3 _ _ _ (not_singleton_of_two k1 k2 ks), tokenChain,
      tokenChain.eq_3 _ _ (by intro n g h; simp at h) (by intro g l h; simp at h)]
    simp only [leaves]; exact tokenLabelsL_collapseL _
theorem tokenLabelsL_collapseL : (ts : List Tree) →
    (leavesL (collapseL ts)).map (·.fields.label) = tokenLabelsL ts
  | [] => by simp [collapseL, leavesL, tokenLabelsL]
  | t :: ts => by
    simp only [collapseL, leavesL, tokenLabelsL, List.map_append, tokenLabels_collapse t,
      tokenLabelsL_collapseL ts]
end


end C14

section C15
open TT.Lemmas.Heads TT.Lemmas.C20

/-! ### C15 -/

theorem parseLabel_label_pieces (s : Str) : (parseLabel DEFAULT_GF_SEP s).label = catPiece s := by
  obtain ⟨lab, gf, gfP, gap, co, hm, _, hp, hd⟩ := parse_decompose DEFAULT_GF_SEP s
  simp only [catPiece, hp, hd]

theorem catOf_pieces (c : Tree) : catOf c = ruleCat c.fields.label := by
  simp only [catOf, ruleCat, parseLabel_label_pieces]

/-- in a table where an entry with an empty priority list is the only entry of its category, the
    exception of `uniqueListedOK` never applies -/
theorem strict_of_ok (rules : HeadRules)
    (halone : ∀ r ∈ rules, r.2.any (fun e => e.2.isEmpty) = true → r.2.length = 1) (t : Tree)
    (h : uniqueListedOK rules t = true) : uniqueListedStrict rules t = true := by
  rw [uniqueListedOK_eq, List.all_eq_true] at h
  unfold uniqueListedStrict
  rw [List.all_eq_true]
  intro s hs
  have hs' := h s hs
  cases s with
  | leaf n f => rfl
  | node f l =>
    cases l with
    | nil => rfl
    | cons k ks =>
      simp only [uniqueAt, uniqueBody, parseLabel_label_pieces] at hs'
      simp only
      cases hl : lookupRules rules (pyLower (catPiece f.label)) with
      | none => rfl
      | some ents =>
        rw [hl] at hs'
        simp only at hs' ⊢
        have hfe : (fun c : Tree => (ents.flatMap (·.2)).contains (catOf c)) =
            fun c => (ents.flatMap (·.2)).contains (ruleCat c.fields.label) := by
          funext c; rw [catOf_pieces]
        rw [hfe] at hs'
        generalize hh : (k :: ks).filter (fun c => (ents.flatMap (·.2)).contains (ruleCat c.fields.label)) = hits
          at hs' ⊢
        match hits, hh, hs' with
        | [], _, _ => rfl
        | _ :: _ :: _, _, _ => rfl
        | [c], hh, hs' =>
          simp only [uniqueHits] at hs'
          simp only
          cases hw : (ents.takeWhile (fun e => !e.2.contains (catOf c))).any (fun e => e.2.isEmpty) with
          | false =>
            rw [hw] at hs'
            simpa using hs'
          | true =>
            exfalso
            -- an empty entry exists, so it is the only entry, so nothing is listed
            obtain ⟨e, he, hemp⟩ := List.any_eq_true.1 hw
            have he' : e ∈ ents := (List.takeWhile_sublist _).subset he
            have hr : ∃ r ∈ rules, r.2 = ents := by
              unfold lookupRules at hl
              cases hf : rules.find? (·.1 == pyLower (catPiece f.label)) with
              | none => rw [hf] at hl; cases hl
              | some r =>
                rw [hf] at hl
                simp only [Option.map_some, Option.some.injEq] at hl
                exact ⟨r, List.mem_of_find?_eq_some hf, hl⟩
            obtain ⟨r, hr, rfl⟩ := hr
            have hlen := halone r hr (List.any_eq_true.2 ⟨e, he', hemp⟩)
            have hents : r.2 = [e] := by
              match hr2 : r.2, hlen, he' with
              | [x], _, he' =>
                simp only [List.mem_singleton] at he'
                rw [he']
            have hcm : c ∈ (k :: ks).filter (fun c => (r.2.flatMap (·.2)).contains (ruleCat c.fields.label)) := by
              rw [hh]; simp
            have := (List.mem_filter.1 hcm).2
            rw [hents] at this
            have he2 : e.2 = [] := by simpa using hemp
            simp [he2] at this

end C15

end TT.Lemmas.More12d
