/-
  TT.ProcIds2 — the process model with node ids of `TT/ProcIds.lean` EXTENDED by node-creating transformations as
  id-drawing calls.  `TT/ProcIds.lean` and `TT/Proc.lean` are untouched.  A command reads a file and transforms every
  sentence (`CallY.readTrans`): the reader stamps the nodes of a sentence (`stamp`), then every transformation is applied
  and the nodes of its result claim their ids (`fill`): a node that still carries the id of a node of the argument is
  that node; a node without id (the model transformations build new nodes with `uid = none`: `add_topnode` one, `binarize`
  one per `@` node) or a second node with an id already met (`boyd_split` copies the data of a split node into every
  block: one per extra block) draws the next value of `Tree.newid`.  The ORDER in which the implementation creates the
  new nodes inside one transformation (and nodes it creates and throws away, `waste`) is abstracted: the model numbers
  them parents before children; the history theorem (Props/C18Ids.lean) is up to renaming, for which only freshness
  matters.  No Mathlib.
-/
import TT.ProcIds
namespace TT
open Tree

/-- a node of a transformation's result claims an id: a node that carries an id not yet met in this tree keeps it (it IS
    the old node); a node without id (created by the transformation) or with an id already met (a copy made by the
    transformation: the further blocks of `boyd_split`) draws the next id of the counter -/
def claim (seen : List Nat) (n : Nat) : Option Nat → Nat × Nat × List Nat
  | some i => if i ∈ seen then (n, n + 1, seen) else (i, n, i :: seen)
  | none => (n, n + 1, seen)

mutual
/-- all nodes of the result claim their ids, parents before children, children in storage order;
    returns the tree, the counter and the ids met -/
def fill (seen : List Nat) (n : Nat) : Tree → Tree × Nat × List Nat
  | .leaf k f => let r := claim seen n f.uid; (.leaf k { f with uid := some r.1 }, r.2.1, r.2.2)
  | .node f ks =>
    let r := claim seen n f.uid
    let q := fillL r.2.2 r.2.1 ks
    (.node { f with uid := some r.1 } q.1, q.2.1, q.2.2)
def fillL (seen : List Nat) (n : Nat) : List Tree → List Tree × Nat × List Nat
  | [] => ([], n, seen)
  | t :: ts => let a := fill seen n t; let b := fillL a.2.2 a.2.1 ts; (a.1 :: b.1, b.2.1, b.2.2)
end

/-- the transformations of a command applied to one tree, each drawing ids for the nodes it creates; a failing
    transformation ends the call (the ids drawn before it are gone) -/
def runStepsY : Nat → List (Tree → Except Err Tree) → Tree → Except Err Tree × Nat
  | n, [], t => (.ok t, n)
  | n, f :: fs, t =>
    match f t with
    | .error e => (.error e, n)
    | .ok u => let r := fill [] n u; runStepsY r.2.1 fs r.1

/-- a command reads and transforms sentence by sentence (the readers are generators): the nodes of sentence i+1 are
    created after the transformations of sentence i have drawn their ids -/
def readTransAll (steps : List (Tree → Except Err Tree)) : Nat → List (Nat × Tree) → Except Err (List (Nat × Tree)) × Nat
  | n, [] => (.ok [], n)
  | n, (sid, t) :: rest =>
    let a := stamp n t
    match runStepsY a.2 steps a.1 with
    | (.error e, m) => (.error e, m)
    | (.ok u, m) =>
      match readTransAll steps m rest with
      | (.error e, m') => (.error e, m')
      | (.ok us, m') => (.ok ((sid, u) :: us), m')

inductive CallY where
  /-- the calls of `TT/ProcIds.lean` -/
  | old (c : CallX)
  /-- read a file and transform every sentence; `drawn` as in `CallX.read` (nodes created and not delivered: all nodes of
      a failing reader, the nodes of the sentences a succeeding TIGER-XML reader skipped - added after the delivered
      sentences, see `CallX.run`); `waste` = ids drawn by nodes the
      transformations created and threw away again -/
  | readTrans (src : Except Err (List (Nat × Tree))) (drawn : Nat) (steps : List (Tree → Except Err Tree)) (waste : Nat)

def CallY.run (fs : Str → Option Str) (st : ProcStateX) : CallY → ResultX × ProcStateX
  | .old c => c.run fs st
  | .readTrans (.error e) drawn _ _ => (.trees (.error e), { st with nextId := st.nextId + drawn })
  | .readTrans (.ok ts) drawn steps waste =>
    let r := readTransAll steps st.nextId ts
    (.trees r.1, { st with nextId := r.2 + drawn + waste })

def runHistoryY (fs : Str → Option Str) : ProcStateX → List CallY → List ResultX
  | _, [] => []
  | st, c :: cs => let r := c.run fs st; r.1 :: runHistoryY fs r.2 cs

/-- a transformation that does not look at the node ids: renaming them before is renaming them after -/
def Blind (f : Tree → Except Err Tree) : Prop := ∀ (g : Nat → Nat) (t : Tree), f (mapUid g t) = (f t).map (mapUid g)

def CallY.Blind : CallY → Prop
  | .old _ => True
  | .readTrans _ _ steps _ => ∀ f ∈ steps, TT.Blind f

end TT

