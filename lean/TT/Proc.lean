/-
  TT.Proc — process-level state that survives between calls: the terminal-file caches kept on
  the function objects of `substitute_terminals` / `insert_terminals`.  The file system is a
  parameter `fs : Str → Option Str` (file name -> content).
-/
import TT.Transform.Misc
namespace TT

/-- one line of a terminal file: sid, index, word, optional POS -/
abbrev TermTable := List (Nat × List (Nat × Str × Option Str))

inductive Loaded where
  | absent                              -- no attribute `fn` yet
  | ok (fn : Str) (t : TermTable)       -- `fn` and `terminals` set
  | broken (fn : Str)                   -- BEFORE the repair: `fn` set, `terminals` deleted (duplicate index)
deriving Repr

def addEntry (tbl : TermTable) (sid k : Nat) (w : Str) (p : Option Str) : Option TermTable :=
  match tbl.find? (·.1 == sid) with
  | some (_, es) =>
    if es.any (·.1 == k) then none
    else some (tbl.map fun (s, es) => if s == sid then (s, es ++ [(k, w, p)]) else (s, es))
  | none => some (tbl ++ [(sid, [(k, w, p)])])

/-- parse the file: `ValueError` for a duplicate index (or a non-numeric field), `IndexError` for a short line;
    `needPos` = insert_terminals reads four columns unconditionally -/
def parseTermLine (needPos : Bool) (tbl : TermTable) (line : Str) : Except Err TermTable :=
  match splitWs line with
  | s :: k :: w :: rest =>
    match strToNat? s, strToNat? k with
    | some s, some k =>
      let p := rest.head?
      if needPos && p.isNone then .error .indexError
      else match addEntry tbl s k w p with
        | some t => .ok t
        | none => .error .valueError
    | _, _ => .error .valueError
  | _ => .error .indexError

def parseTermFile (needPos : Bool) (content : Str) : Except Err TermTable :=
  let lines := splitOnChar '\n' content
  let lines := if lines.getLast? == some [] then lines.dropLast else lines
  lines.foldlM (parseTermLine needPos) []

/-- the cache protocol of both functions (after the repair: a failed load leaves no trace) -/
def loadTable (needPos : Bool) (fs : Str → Option Str) (st : Loaded) (fn : Str) : Except Err TermTable × Loaded :=
  match st with
  | .ok f t => if f == fn then (.ok t, st) else reload
  | _ => reload
where reload : Except Err TermTable × Loaded :=
  match fs fn with
  | none => (.error .other, .absent)
  | some c => match parseTermFile needPos c with
    | .ok t => (.ok t, .ok fn t)
    | .error e => (.error e, .absent)

def reqsFor (tbl : TermTable) (sid : Nat) : List (Nat × Str × Option Str) :=
  sortBy (·.1) (((tbl.find? (·.1 == sid)).map (·.2)).getD [])

structure ProcState where
  sub : Loaded := .absent
  ins : Loaded := .absent

inductive Call where
  | substitute (fn : Str) (sid : Nat) (t : Tree)
  | insert (fn : Str) (sid : Nat) (t : Tree)
  | pure (t : Tree)          -- any call that touches no process state (readers, writers, other transformations)

def Call.run (fs : Str → Option Str) (st : ProcState) : Call → Except Err Tree × ProcState
  | .substitute fn sid t =>
    let (r, l) := loadTable false fs st.sub fn
    (r.map fun tbl => Tree.substituteTerminals (reqsFor tbl sid) t, { st with sub := l })
  | .insert fn sid t =>
    let (r, l) := loadTable true fs st.ins fn
    (r.map fun tbl => Tree.insertTerminals ((reqsFor tbl sid).map fun (k, w, p) => (k, w, p.getD [])) t, { st with ins := l })
  | .pure t => (.ok t, st)

/-- run a history, returning the result of every call -/
def runHistory (fs : Str → Option Str) : ProcState → List Call → List (Except Err Tree)
  | _, [] => []
  | st, c :: cs => let (r, st') := c.run fs st; r :: runHistory fs st' cs

end TT
