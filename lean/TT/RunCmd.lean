/-
  TT.RunCmd — `treetools transform SRC DEST --trans NAMES... --params WORDS...` (trees/transform.py `run`): from the
  NAMES of the transformations and the words of `--params` to the steps of the pipeline.  `run` builds ONE dict
  `params = misc.options_dict(args.params)` and calls `globals()[name](tree, **params)` for every name in the order given:
  every transformation sees the same dict and picks the keys it knows.  Before wave 18 this glue lived in the driver
  (`Driver.applyT` on the harness's own encoding of the parameters).

  Modelled: the transformations without a parameter file.  `insert_terminals` / `substitute_terminals` (terminal files)
  and parameter values of a kind the code cannot use sensibly (a number where text is expected, text where a number is
  expected) are outside (`none`) and not generated for this function.
  No Mathlib.
-/
import TT.RunSrc
import TT.Transform.RootAttach
import TT.Transform.Heads
import TT.Transform.Boyd
import TT.Transform.Punct
import TT.Transform.Misc
import TT.Transform.Binarize
import TT.Transform.Collapse
import TT.Transform.Traces
import TT.Transform.Slash
namespace TT
open Tree

/-- text value of a key: `none` absent, `some none` present but not text -/
def optText (d : List (Str × OptVal)) (k : String) : Option (Option Str) :=
  match optLookup d k.toList with
  | none => none
  | some (.str s) => some (some s)
  | some _ => some none

/-- the step a transformation name stands for under the parameter dict; `none`: outside the model -/
def stepOf (d : List (Str × OptVal)) (name : Str) : Option Step :=
  let has := fun (k : String) => (optLookup d k.toList).isSome
  match String.ofList name with
  | "root_attach" => some fun t => .ok (some (rootAttach t))
  | "negra_mark_heads" => some fun t => .ok (some (negraMarkHeads t))
  | "boyd_split" => some fun t => (boydSplit t).map some
  | "raising" => some fun t => .ok (some (raising t))
  | "add_topnode" => some fun t => .ok (some (addTopnode t))
  | "punctuation_verylow" => some fun t => .ok (some (punctuationVerylow t))
  | "punctuation_root" => some fun t => .ok (some (punctuationRoot t))
  | "punctuation_delete" => some fun t => .ok (some (punctuationDelete t).1)
  | "collapse_unary_chains" => some fun t => .ok (some (collapse t))
  | "uncollapse_unary_chains" => some fun t => .ok (some (uncollapse t))
  | "binarize" => some fun t => (binarize (has "bare_bin_labels") t).map some
  | "punctuation_symetrify" =>
    match optText d "relc" with
    | none => some fun t => .ok (some (punctuationSymetrify none t))
    | some (some s) => some fun t => .ok (some (punctuationSymetrify (some s) t))
    | some none => none
  | "mark_heads_by_rules" =>
    -- the preset is compared with 'negra' and 'ptb', anything else (a number, a bare key) is an unknown preset
    let preset : Option Preset := match optLookup d "mark_heads_preset".toList with
      | none => none
      | some (.str s) => some (if s == "negra".toList then .negra else if s == "ptb".toList then .ptb else .other)
      | some _ => some .other
    match preset, optText d "mark_heads_rulefile" with
    | p, none => some fun t => (markHeadsByRules p none t).map some
    | p, some (some rf) => some fun t => (markHeadsByRules p (some rf) t).map some
    | some p, some none => some fun t => (markHeadsByRules (some p) (some []) t).map some   -- both given: refused before the value is looked at
    | none, some none => none
  | "filter_by_length" =>
    match optLookup d "filteroperator".toList, optLookup d "filtervalue".toList with
    | none, _ => some fun _ => .error .keyError
    | some _, none => some fun _ => .error .keyError
    | some op, some (.int v) =>
      let o : FilterOp := match op with
        | .str s => if s == "lt".toList then .lt else if s == "gt".toList then .gt else if s == "eq".toList then .eq else .other
        | _ => .other
      some fun t => .ok (filterByLength o v t)
    | some _, some _ => none
  | "ptb_delete_traces" =>
    let keep : Option (List Str) := match optLookup d "keep".toList with
      | none => some []
      | some (.str s) => some (splitOnChar ',' s)
      | some _ => none
    let slash : Option (Option (List Str)) := match optLookup d "slash".toList with
      | none => some none
      | some .flag => some (some [])
      | some (.str s) => some (some (splitOnChar ',' s))
      | some (.int _) => none
    match keep, slash with
    | some keep, some slash => some fun t =>
      match ptbDeleteTracesSlash { keep := keep, keepall := has "keepall", keepcoindex := has "keepcoindex" } slash t with
      | .ok r => .ok (some r)
      | .error "ValueError" => .error .valueError
      | .error "IndexError" => .error .indexError
      | .error _ => .error .other
    | _, _ => none
  | _ => none

/-- the steps of `--trans names --params words`, in the order of the names, all under the same dict -/
def stepsOf (names : List Str) (pwords : List Str) : Option (List Step) :=
  names.mapM (stepOf (optionsDict pwords))

/-- the whole `transform` command (no `--split`) from the words of its command line -/
def runCmd (names pwords : List Str) (fmt : DestFmt) (dwords : List Str) (enc : Option Str) (swords : List Str)
    (src : Source) : Option (Except Err Str) :=
  match stepsOf names pwords with
  | some steps => runWords2 steps fmt dwords enc swords src
  | none => none

/-- ... with `--split spec` -/
def runSplitCmd (names pwords : List Str) (fmt : DestFmt) (dwords : List Str) (enc : Option Str) (spec : Str)
    (swords : List Str) (src : Source) : Option (Except Err (List Str)) :=
  match stepsOf names pwords, inOptsOf (optionsDict swords) with
  | some steps, some io => some (runSplitSrc steps fmt (outOptsOf (optionsDict dwords)) enc spec io src)
  | _, _ => none

/-- `treetools transitions SRC DEST SYS --transform names --params words --src-opts words [--dest-opts pos]`: the same
    `stepsOf` glue (`getattr(transform, name)(tree, **options_dict(params))` for every name in order) -/
def runTransitionsCmd (names pwords : List Str) (sys : TransSys) (dwords swords : List Str) (src : Source) :
    Option (Except Err (List Str)) :=
  match stepsOf names pwords, inOptsOf (optionsDict swords) with
  | some steps, some io =>
    some (runTransitionsSrc steps sys (optLookup (optionsDict dwords) "pos".toList).isSome io src)
  | _, _ => none

/-- `--markov words`: `options_dict`, then the documented defaults v 1, h 2; `nofanout` by presence.  A `v` / `h` that is
    not a number is outside the model. -/
def markovOf (mwords : Option (List Str)) : Option (Option MarkovOpts) :=
  match mwords with
  | none => some none
  | some ws =>
    let d := optionsDict ws
    let num := fun (k : String) => match optLookup d k.toList with
      | none => some none
      | some (.int n) => some (some n)
      | some _ => none
    match num "v", num "h" with
    | some v, some h => some (some (markovDefaults v h (optLookup d "nofanout".toList).isSome))
    | _, _ => none

/-- `treetools grammar SRC DEST TYPE [--markov words] --src-opts words` (tree sources): the grammar and lexicon handed to
    the writer -/
def runGrammarCmd (gt : GramType) (mwords : Option (List Str)) (swords : List Str) (src : Source) :
    Option (Except Err (Grammar × Lexicon)) :=
  match markovOf mwords, inOptsOf (optionsDict swords) with
  | some mo, some io => some (runGrammarSrc gt mo io src)
  | _, _ => none

end TT
