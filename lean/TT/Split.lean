/-
  TT.Split — `treeoutput.parse_split_specification` (after the repair: integer arithmetic,
  digits only) and the distribution of the tree list over the parts (`transform.run`, split branch).
-/
import TT.Label
namespace TT

inductive Part where
  | pct (p : Nat) | abs (n : Nat) | rest
deriving DecidableEq, Repr

/-- one part specification: `<digits>%`, `<digits>#` or `rest` -/
def parsePart (s : Str) : Option Part :=
  if s = "rest".toList then some .rest
  else match s.getLast? with
    | some '%' => (strToNat? s.dropLast).map .pct
    | some '#' => (strToNat? s.dropLast).map .abs
    | _ => none

/-- parse all parts; a second `rest` is an error -/
def parseParts : List Str → Bool → Option (List Part)
  | [], _ => some []
  | s :: ss, seenRest =>
    match parsePart s with
    | none => none
    | some .rest => if seenRest then none else (parseParts ss true).map (Part.rest :: ·)
    | some p => (parseParts ss seenRest).map (p :: ·)

def baseSize (size : Nat) : Part → Nat
  | .pct p => p * size / 100
  | .abs n => n
  | .rest => 0

/-- index of the first maximal element -/
def firstMaxIdx : List Nat → Nat
  | [] => 0
  | [_] => 0
  | a :: b :: r =>
    let j := firstMaxIdx (b :: r)
    if a ≥ (b :: r)[j]?.getD 0 then 0 else j + 1

def restIdx (ps : List Part) : Option Nat := ps.idxOf? Part.rest

def addAt (l : List Nat) (i d : Nat) : List Nat := l.set i ((l[i]?.getD 0) + d)

def sizesOf (ps : List Part) (size : Nat) : Except Err (List Nat) :=
  let base := ps.map (baseSize size)
  let s := base.sum
  if s < size then
    match restIdx ps with
    | some i => .ok (addAt base i (size - s))
    | none => .ok (addAt base (firstMaxIdx base) (size - s))
  else if s = size then .ok base
  else .error .valueError

def parseSplitSpec (spec : Str) (size : Nat) : Except Err (List Nat) :=
  match parseParts (splitOnChar '_' spec) false with
  | none => .error .valueError
  | some ps => sizesOf ps size

/-- hand the trees out in order: part i gets the next `parts[i]` trees -/
def distribute {α} : List Nat → List α → List (List α)
  | [], _ => []
  | n :: ns, ts => ts.take n :: distribute ns (ts.drop n)

end TT
