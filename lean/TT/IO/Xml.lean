/-
  TT.IO.Xml — XML text -> element structure, for the XML subset the TIGER-XML writer emits
  (what `xml.etree.ElementTree.parse` does for `treeinput.tigerxml`, restricted to that subset):

    document := decl? ws* element ws*
    decl     := "<?xml version='1.0'" (" encoding='" NAME "'")? "?>"        (only at the very beginning)
    element  := "<" NAME attr* ws* "/>"  |  "<" NAME attr* ws* ">" (ws* element)* ws* "</" NAME ws* ">"
    attr     := ws+ NAME ws* "=" ws* ( '"' value '"' | "'" value "'" )
    value    := characters other than the delimiter, "<" and "&"; the five entities &amp; &lt; &gt; &quot; &apos;;
                decimal character references &#N; (N a legal XML character); a literal TAB / LF is read as a blank
                (attribute-value normalisation)
    NAME     := [A-Za-z_][A-Za-z0-9_.-]*  other than "xmlns"     ws := blank, TAB, LF, CR
    (the encoding name in the declaration: [A-Za-z][A-Za-z0-9_.-]*; the model works on decoded text and does not interpret it)

  Everything else is an error (`Err.other`, ElementTree's `ParseError`): comments, CDATA, DOCTYPE, processing instructions,
  character data between tags, hexadecimal character references, other entities, namespaces (":" in names), a literal CR
  inside a value, a repeated attribute, characters that are not legal in XML 1.0, mismatched or unclosed tags, more than one
  root element.  Then `toXSents`: the part of the element tree that `treeinput.tigerxml` / `tigerxml_build_tree` look at
  (`getroot().find('body').findall('s')`, `find('graph')`, `find('terminals').findall('t')`,
  `find('nonterminals').findall('nt')`, `findall('edge')`, `get(...)`).
  No Mathlib.
-/
import TT.IO.Read
namespace TT
namespace Xml

/-- an element: name, attributes in document order (values decoded), child elements in document order -/
inductive XElem where
  | mk (name : Str) (attrs : List (Str × Str)) (kids : List XElem)

def XElem.name : XElem → Str | .mk n _ _ => n
def XElem.attrs : XElem → List (Str × Str) | .mk _ a _ => a
def XElem.kids : XElem → List XElem | .mk _ _ k => k

/-- a tag: start tag, end tag, empty-element tag -/
inductive XTok where
  | op (name : Str) (attrs : List (Str × Str))
  | cl (name : Str)
  | em (name : Str) (attrs : List (Str × Str))

/-- the `Char` production of XML 1.0 -/
def xmlCodeOK (n : Nat) : Bool :=
  n == 9 || n == 10 || n == 13 || (decide (32 ≤ n) && decide (n ≤ 0xD7FF)) || (decide (0xE000 ≤ n) && decide (n ≤ 0xFFFD)) ||
  (decide (0x10000 ≤ n) && decide (n ≤ 0x10FFFF))

def xmlCharOK (c : Char) : Bool := xmlCodeOK c.toNat

def isXmlWs (c : Char) : Bool := c == ' ' || c == '\t' || c == '\n' || c == '\r'
def skipWs (s : Str) : Str := s.dropWhile isXmlWs

def isNameC (c : Char) : Bool := c.isAlphanum || c == '_' || c == '-' || c == '.'
/-- a name the subset admits (`xmlns` would declare a namespace) -/
def nameOK (n : Str) : Bool :=
  n != ['x','m','l','n','s'] &&
  match n with
  | [] => false
  | c :: _ => c.isAlpha || c == '_'

/-- the character an entity / character reference (the text between `&` and `;`) stands for -/
def entChar (ent : Str) : Option Char :=
  if ent == ['a','m','p'] then some '&' else if ent == ['l','t'] then some '<' else if ent == ['g','t'] then some '>'
  else if ent == ['q','u','o','t'] then some '"' else if ent == ['a','p','o','s'] then some '\''
  else match ent with
    | '#' :: d => (strToNat? d).bind fun n => if xmlCodeOK n then some (Char.ofNat n) else none
    | _ => none

/-- the value of an attribute from the text between its delimiters (fuel: length + 1) -/
def unescS : Nat → Str → Option Str
  | 0, _ => none
  | _, [] => some []
  | f + 1, c :: r =>
    if c == '&' then
      match splitFirst ';' r with
      | some (ent, rest) => (entChar ent).bind fun ch => (unescS f rest).map (ch :: ·)
      | none => none
    else if c == '<' || c == '\r' then none
    else if c == '\n' || c == '\t' then (unescS f r).map (' ' :: ·)
    else (unescS f r).map (c :: ·)

def attrValue (v : Str) : Option Str := unescS (v.length + 1) v

/-- the attributes of a tag and its end: (attributes, is it an empty-element tag, the text after the tag); fuel: number of
    attributes + 1 -/
def lexAttrs : Nat → Str → Option (List (Str × Str) × Bool × Str)
  | 0, _ => none
  | f + 1, s =>
    let s' := skipWs s
    if ['>'].isPrefixOf s' then some ([], false, s'.drop 1)
    else if ['/', '>'].isPrefixOf s' then some ([], true, s'.drop 2)
    else if (s.head?.map isXmlWs) != some true then none       -- white space is required before an attribute
    else
      let name := s'.takeWhile isNameC
      if !nameOK name then none else
      match skipWs (s'.drop name.length) with
      | '=' :: r1 =>
        match skipWs r1 with
        | q :: r2 =>
          if q == '"' || q == '\'' then
            let v := r2.takeWhile (· != q)
            match r2.drop v.length with
            | _ :: r3 =>
              match attrValue v, lexAttrs f r3 with
              | some val, some (as, sc, rest) => if as.any (·.1 == name) then none else some ((name, val) :: as, sc, rest)
              | _, _ => none
            | [] => none
          else none
        | [] => none
      | _ => none

/-- one tag at the beginning of the text -/
def lexTag (s : Str) : Option (XTok × Str) :=
  match s with
  | '<' :: r =>
    if ['/'].isPrefixOf r then
      let r := r.drop 1
      let name := r.takeWhile isNameC
      if !nameOK name then none else
      match skipWs (r.drop name.length) with
      | '>' :: rest => some (.cl name, rest)
      | _ => none
    else
      let name := r.takeWhile isNameC
      if !nameOK name then none else
      match lexAttrs (r.length + 1) (r.drop name.length) with
      | some (as, sc, rest) => some (if sc then .em name as else .op name as, rest)
      | none => none
  | _ => none

/-- the tags of the text; only white space between them (fuel: length + 1) -/
def lexAll : Nat → Str → Option (List XTok)
  | 0, _ => none
  | f + 1, s =>
    match skipWs s with
    | [] => some []
    | s' =>
      match lexTag s' with
      | some (t, rest) => (lexAll f rest).map (t :: ·)
      | none => none

/-- an open element: name, attributes, the children read so far (last first) -/
abbrev Frame := Str × List (Str × Str) × List XElem

def addKid (e : XElem) : List Frame → List Frame
  | (n, as, ks) :: st => (n, as, e :: ks) :: st
  | [] => []

/-- the element tree of a tag sequence; the bottom frame of the stack stands for the document -/
def buildGo : List XTok → List Frame → Option XElem
  | [], [(_, _, [r])] => some r
  | [], _ => none
  | .op n as :: ts, st => buildGo ts ((n, as, []) :: st)
  | .em n as :: ts, st => buildGo ts (addKid (.mk n as []) st)
  | .cl n :: ts, (n', as, ks) :: p :: st => if n == n' then buildGo ts (addKid (.mk n as ks.reverse) (p :: st)) else none
  | .cl _ :: _, _ => none

def buildTree (ts : List XTok) : Option XElem := buildGo ts [([], [], [])]

def isEncC (c : Char) : Bool := c.isAlphanum || c == '_' || c == '-' || c == '.'
/-- `EncName`: starts with a letter -/
def encNameOK (e : Str) : Bool :=
  match e with
  | [] => false
  | c :: _ => c.isAlpha

def declHead : Str := "<?xml version='1.0'".toList

/-- the text after the XML declaration (if there is one) -/
def stripDecl (s : Str) : Option Str :=
  if declHead.isPrefixOf s then
    let r := s.drop declHead.length
    if ['?', '>'].isPrefixOf r then some (r.drop 2)
    else if " encoding='".toList.isPrefixOf r then
      let r2 := r.drop 11
      let e := r2.takeWhile isEncC
      if !encNameOK e then none
      else if ['\'', '?', '>'].isPrefixOf (r2.drop e.length) then some ((r2.drop e.length).drop 3) else none
    else none
  else some s

/-- `ElementTree.parse(...).getroot()` on the modelled subset; `none` = `ParseError` or outside the subset -/
def parseXml (s : Str) : Option XElem :=
  if !s.all xmlCharOK then none else
  (stripDecl s).bind fun body => (lexAll (body.length + 1) body).bind buildTree

/-! ### what `treeinput.tigerxml` looks at -/

/-- `element.get(k)` -/
def getA (e : XElem) (k : String) : Option Str := (e.attrs.find? (·.1 == k.toList)).map (·.2)
/-- `element.find(n)`: the first child with that name -/
def findE (e : XElem) (n : String) : Option XElem := e.kids.find? (·.name == n.toList)
/-- `element.findall(n)`: the children with that name -/
def findAllE (e : XElem) (n : String) : List XElem := e.kids.filter (·.name == n.toList)

/-- (an element without `id` / `idref` has no counterpart in `XSent`: `Err.other`) -/
def toXTerm (t : XElem) : Except Err XTerm :=
  match getA t "id" with
  | none => .error .other
  | some i => .ok { id := i, word := getA t "word", pos := getA t "pos", morph := getA t "morph", lemma := getA t "lemma" }

def toXEdge (e : XElem) : Except Err (Option Str × Str) :=
  match getA e "idref" with
  | none => .error .other
  | some r => .ok (getA e "label", r)

def toXNt (n : XElem) : Except Err XNt :=
  match getA n "id" with
  | none => .error .other
  | some i => ((findAllE n "edge").mapM toXEdge).map fun es => { id := i, cat := getA n "cat", edges := es }

/-- one `<s>`: no `id` -> `TypeError` (`findall` on `None`), no `graph` / `terminals` / `nonterminals` -> `AttributeError` -/
def toXSent (s : XElem) : Except Err XSent :=
  match getA s "id" with
  | none => .error .typeError
  | some i =>
    match findE s "graph" with
    | none => .error .attributeError
    | some g =>
      match findE g "terminals", findE g "nonterminals" with
      | some ts, some ns =>
        match (findAllE ts "t").mapM toXTerm, (findAllE ns "nt").mapM toXNt with
        | .ok terms, .ok nts => .ok { id := i, terms := terms, nts := nts }
        | .error e, _ => .error e
        | _, .error e => .error e
      | _, _ => .error .attributeError

def toXSents (root : XElem) : Except Err (List XSent) :=
  match findE root "body" with
  | none => .error .attributeError
  | some b => (findAllE b "s").mapM toXSent

/-- XML text -> the element structure the TIGER-XML reader model starts from -/
def parseXmlDoc (s : Str) : Except Err (List XSent) :=
  match parseXml s with
  | none => .error .other
  | some root => toXSents root

/-- the TIGER-XML reader on text -/
def readTigerText (o : InOpts) (s : Str) : Except Err (List (Nat × Tree)) :=
  parseXmlDoc s >>= readTiger o

end Xml
end TT
