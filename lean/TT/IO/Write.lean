/-
  TT.IO.Write — the five tree writers of `treeoutput.py` (text as lists of lines; a line does
  not contain its terminating "\n").
-/
import TT.Nav
import TT.Label
import TT.Generated.Consts
namespace TT
namespace Tree

/-- `replace_chars(tree, BRACKETS)` on one string: sequential replacement in dict order -/
def replaceParens (s : Str) : Str := Gen.BRACKETS.foldl (fun acc (k, v) => replaceAll k v acc) s

def replaceParensFields (f : Fields) : Fields :=
  { f with label := replaceParens f.label, word := f.word.map replaceParens, lemma := f.lemma.map replaceParens,
           morph := f.morph.map replaceParens, edge := f.edge.map replaceParens }

/-- `export_tabs` -/
def exportTabs (len : Nat) : Str :=
  if len < 8 then ['\t', '\t', '\t'] else if len < 16 then ['\t', '\t'] else ['\t']

/-- one node line; `word` is the token's word or `#<num>`; `parentNum` the number of the parent -/
def exportLine (o : OutOpts) (t : Tree) (word : Str) (parentNum : Nat) : Except Err Str := do
  let f := t.fields
  let edge := f.edge.getD DEFAULT_EDGE
  let label ← getLabel o (t.setFields fun g => { g with edge := some edge })
  let morph := f.morph.getD DEFAULT_MORPH
  if !o.exportFour then
    pure (word ++ exportTabs word.length ++ label ++ ['\t'] ++ morph ++ exportTabs (morph.length + 8) ++ edge ++
          ['\t'] ++ natToStr parentNum)
  else
    let lemma := f.lemma.getD DEFAULT_LEMMA
    pure (word ++ exportTabs word.length ++ lemma ++ exportTabs lemma.length ++ label ++ ['\t'] ++ morph ++
          exportTabs (morph.length + 8) ++ edge ++ ['\t'] ++ natToStr parentNum)

/-- `treeoutput.export(tree, stream)`: lines of one sentence -/
def writeExport (o : OutOpts) (sid : Nat) (t : Tree) : Except Err (List Str) := do
  let numOf := fun (p : Path) => (exportNum t p).getD 0
  let nodes := (t.preorderP.filter (· ≠ [])).filterMap fun p => (t.get? p).map fun s => (p, s)
  let terms ← (nodes.filter fun (_, s) => s.kids.isEmpty).mapM fun (p, s) => do
      let l ← exportLine o s (s.fields.word.getD []) (numOf p.dropLast)
      pure (numOf p, l)
  let nonterms ← (nodes.filter fun (_, s) => !s.kids.isEmpty).mapM fun (p, s) => do
      let l ← exportLine o s ('#' :: natToStr (numOf p)) (numOf p.dropLast)
      pure (numOf p, l)
  pure (["#BOS ".toList ++ natToStr sid] ++ (sortBy (·.1) terms).map (·.2) ++ (sortBy (·.1) nonterms).map (·.2) ++
        ["#EOS ".toList ++ natToStr sid])

mutual
/-- `write_brackets_subtree`; `emptyRoot` applies to the node it is called on only -/
def bracketsSub (o : OutOpts) (emptyRoot : Bool) : Tree → Except Err Str
  | leaf n f =>
    let f' := replaceParensFields f
    match getLabel o (leaf n f') with
    | .ok l => .ok (['('] ++ l ++ [' '] ++ (f'.word.getD "None".toList) ++ [')'])
    | .error e => .error e
  | node f ks =>
    if ks.isEmpty then
      let f' := replaceParensFields f
      match getLabel o (node f' []) with
      | .ok l => .ok (['('] ++ l ++ [' '] ++ (f'.word.getD "None".toList) ++ [')'])
      | .error e => .error e
    else
      match (if emptyRoot then .ok [] else getLabel o (node f ks)), bracketsKids o ks with
      | .ok l, .ok parts => .ok (['('] ++ l ++ ((sortBy (·.1) parts).map (·.2)).flatten ++ [')'])
      | .error e, _ => .error e
      | _, .error e => .error e
def bracketsKids (o : OutOpts) : List Tree → Except Err (List (Nat × Str))
  | [] => .ok []
  | t :: ts =>
    match bracketsSub o false t, bracketsKids o ts with
    | .ok a, .ok b => .ok ((leftmost t, a) :: b)
    | .error e, _ => .error e
    | _, .error e => .error e
end

/-- `treeoutput.brackets`: `none` = skipped, error = refused -/
def writeBrackets (o : OutOpts) (t : Tree) : Except Err (Option Str) :=
  if gapDegree t > 0 then (if o.skipDisco then .ok none else .error .valueError)
  else (bracketsSub o o.emptyRoot t).map some

mutual
def wordsToNums : Tree → Tree
  | leaf n f => leaf n { f with word := some (natToStr n) }
  | node f ks => node f (wordsToNumsL ks)
def wordsToNumsL : List Tree → List Tree
  | [] => []
  | t :: ts => wordsToNums t :: wordsToNumsL ts
end

/-- `treeoutput.discobrackets`: tree with indices, TAB, the sentence -/
def writeDisco (o : OutOpts) (t : Tree) : Except Err Str :=
  let sentence := joinWith [' '] (t.terminals.map fun l => l.fields.word.getD "None".toList)
  (bracketsSub o o.emptyRoot (wordsToNums t)).map fun s => s ++ ['\t'] ++ sentence

/-- `treeoutput.terminals`: the text written (all lines joined with "\n", incl. the final newline) -/
def writeTerminals (o : OutOpts) (t : Tree) : Except Err Str :=
  if o.terminalsPos && o.posOnly then .error .valueError else
  let item := fun (l : Tree) =>
    if o.posOnly then l.fields.label
    else (l.fields.word.getD []) ++ (if o.terminalsPos then (if o.terminalsOne then ['\t'] else ['/']) ++ l.fields.label else [])
  .ok (((t.terminals.map fun l => item l ++ (if o.terminalsOne then ['\n'] else [' '])).flatten) ++ ['\n'])

/-- `xml.sax.saxutils.quoteattr` -/
def xmlEscape (s : Str) : Str :=
  s.flatMap fun c =>
    if c = '&' then "&amp;".toList else if c = '<' then "&lt;".toList else if c = '>' then "&gt;".toList
    else if c = '\n' then "&#10;".toList else if c = '\r' then "&#13;".toList else if c = '\t' then "&#9;".toList
    else [c]

def quoteattr (s : Str) : Str :=
  let e := xmlEscape s
  if e.contains '"' then
    (if e.contains '\'' then ['"'] ++ (e.flatMap fun c => if c = '"' then "&quot;".toList else [c]) ++ ['"']
     else ['\''] ++ e ++ ['\''])
  else ['"'] ++ e ++ ['"']

/-- `treeoutput.tigerxml`: lines of one `<s>` element -/
def writeTiger (sid : Nat) (t : Tree) : List Str :=
  let numOf := fun (p : Path) => (exportNum t p).getD 0
  let dflt := fun (x : Option Str) => x.getD "--".toList
  let terms := t.terminals.map fun l =>
    "    <t id=\"".toList ++ natToStr l.num ++ "\" ".toList ++
    "word=".toList ++ quoteattr (dflt l.fields.word) ++ " lemma=".toList ++ quoteattr (dflt l.fields.lemma) ++
    " pos=".toList ++ quoteattr l.fields.label ++ " morph=".toList ++ quoteattr (dflt l.fields.morph) ++ " />".toList
  let nts := (t.postorderP.filterMap fun p => match t.get? p with
    | some (node f (k :: ks)) => some (p, node f (k :: ks))
    | _ => none).flatMap fun (p, s) =>
      ["    <nt id=\"".toList ++ natToStr (numOf p) ++ "\" cat=".toList ++ quoteattr s.fields.label ++ ">".toList] ++
      ((childOrder s).map fun i =>
        let c := s.kids[i]?
        "      <edge label=".toList ++ quoteattr (((c.bind (·.fields.edge)).getD DEFAULT_EDGE)) ++
        " idref=\"".toList ++ natToStr (match c with
          | some (leaf n _) => n
          | _ => numOf (p ++ [i])) ++ "\" />".toList) ++
      ["    </nt>".toList]
  ["<s id=\"".toList ++ natToStr sid ++ "\">".toList,
   "<graph root=\"".toList ++ natToStr (numOf []) ++ "\">".toList,
   "  <terminals>".toList] ++ terms ++
  ["  </terminals>".toList, "  <nonterminals>".toList] ++ nts ++
  ["  </nonterminals>".toList, "</graph>".toList, "</s>".toList]

/-- `tigerxml_begin` (after the repair: the stream's encoding is declared when it has one) / `_end` -/
def tigerBegin (enc : Option Str) : List Str :=
  [(match enc with
    | some e => "<?xml version='1.0' encoding='".toList ++ e ++ "'?>".toList
    | none => "<?xml version='1.0'?>".toList), "<corpus>".toList, "<body>".toList]
def tigerEnd : Str := "</body>\n</corpus>".toList

end Tree
end TT
