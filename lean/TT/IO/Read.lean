/-
  TT.IO.Read — the readers of `treeinput.py`: bracket lexer + 7-state automaton (with the
  discobracket post-pass), export, TIGER-XML (from the element structure).
-/
import TT.IO.Write
namespace TT

structure InOpts where
  gfSplit : Bool := false
  gfSeparator : Option Str := none
  replaceParens : Bool := false
  emptyPos : Bool := false
  firstId : Option Nat := none
  continuous : Bool := false
  disco : Bool := false
  discoReordered : Bool := false
deriving Repr, Inhabited

/-- label and edge assigned by `gf_split` (identical code in all three readers after the repair) -/
def gfSplitLabel (sep : Str) (raw : Str) : Str × Str :=
  let p := parseLabel sep raw
  (p.label ++ (if p.gapindex.isEmpty then [] else '=' :: p.gapindex) ++
     (if p.coindex.isEmpty then [] else '-' :: p.coindex) ++ (if p.headmarker then ['\''] else []), p.gf)

/-! ### bracket lexer -/

inductive LexClass | token | ws | lrb | rrb
deriving DecidableEq, Repr

/-- `bracket_lexer`: note that a token or whitespace run still buffered at end of input is NOT emitted -/
def lexAux : Str → Str → Str → List (Str × LexClass)
  | [], _, _ => []
  | c :: cs, tok, ws =>
    if c = '(' || c = ')' then
      (if tok.isEmpty then [] else [(tok.reverse, LexClass.token)]) ++
      (if ws.isEmpty then [] else [(ws.reverse, LexClass.ws)]) ++
      [([c], if c = '(' then LexClass.lrb else LexClass.rrb)] ++ lexAux cs [] []
    else if pyIsSpace c then
      (if tok.isEmpty then [] else [(tok.reverse, LexClass.token)]) ++ lexAux cs [] (c :: ws)
    else
      (if ws.isEmpty then [] else [(ws.reverse, LexClass.ws)]) ++ lexAux cs (c :: tok) []

def bracketLex (s : Str) : List (Str × LexClass) := lexAux s [] []

/-! ### bracket automaton -/

/-- a node under construction -/
structure QNode where
  f : Fields := {}
  kids : List Tree := []
  num : Option Nat := none
  /-- the label token of the node as it was written (`rawlabel`): the word of an empty-POS token -/
  raw : Str := []
deriving Inhabited

def QNode.toTree (q : QNode) : Tree :=
  match q.num with
  | some n => if q.kids.isEmpty then Tree.leaf n q.f else Tree.node q.f q.kids
  | none => Tree.node q.f q.kids

structure BrState where
  state : Nat := 0
  level : Nat := 0
  queue : List QNode := []     -- innermost LAST
  termCnt : Nat := 1
  cnt : Nat := 1
  out : List (Nat × Tree) := []   -- (sid, tree), reversed

def updLast (q : List QNode) (g : QNode → QNode) : List QNode :=
  match q.reverse with
  | [] => []
  | x :: r => (g x :: r).reverse

/-- attach the innermost node to its parent -/
def closeLast (q : List QNode) : List QNode :=
  match q.reverse with
  | x :: y :: r => ({ y with kids := y.kids ++ [x.toTree] } :: r).reverse
  | _ => q

mutual
def replaceParensTree : Tree → Tree
  | .leaf n f => .leaf n (Tree.replaceParensFields f)
  | .node f ks => .node (Tree.replaceParensFields f) (replaceParensTreeL ks)
def replaceParensTreeL : List Tree → List Tree
  | [] => []
  | t :: ts => replaceParensTree t :: replaceParensTreeL ts
end

/-- one lexer token.  Result: new state, or an error; `closed` = a sentence was completed
    (the disco post-pass is done by the caller, which owns the lexer stream) -/
def brStep (o : InOpts) (st : BrState) (tok : Str × LexClass) : Except Err (BrState × Option Tree) :=
  let sep := o.gfSeparator.getD DEFAULT_GF_SEP
  match tok.2 with
  | .lrb =>
    if st.state == 0 || st.state == 2 || st.state == 3 || st.state == 5 then
      .ok ({ st with level := st.level + 1, queue := st.queue ++ [{}], state := if st.state == 0 then 9 else 1 }, none)
    else if st.state == 9 then
      .ok ({ st with level := st.level + 1, queue := updLast st.queue (fun q => { q with f := { q.f with label := DEFAULT_ROOT } }) ++ [{}], state := 1 }, none)
    else .error .valueError
  | .rrb =>
    if st.state == 0 then .ok (st, none)
    else if st.state == 2 || st.state == 4 || st.state == 5 then
      if st.state == 2 && !o.emptyPos then .error .valueError else
      let (queue, termCnt) :=
        if st.state == 2 then
          (updLast st.queue (fun q => { q with f := { q.f with word := some q.raw, label := DEFAULT_LABEL, edge := some DEFAULT_EDGE, morph := some DEFAULT_MORPH }, num := some st.termCnt }), st.termCnt + 1)
        else (st.queue, st.termCnt)
      let level := st.level - 1
      let queue := if queue.length > 1 then closeLast queue else queue
      if level == 0 then
        match queue.head? with
        | some root =>
          let t := root.toTree
          let t := if o.replaceParens then replaceParensTree t else t
          .ok ({ st with state := 0, level := 0, queue := [], termCnt := 1, cnt := st.cnt + 1 }, some t)
        | none => .error .indexError
      else .ok ({ st with state := 5, level := level, queue := queue, termCnt := termCnt }, none)
    else .error .valueError
  | .ws =>
    if st.state == 2 then .ok ({ st with state := 3 }, none) else .ok (st, none)
  | .token =>
    if st.state == 0 then .ok (st, none)
    else if st.state == 1 || st.state == 9 then
      let (label, edge) := if o.gfSplit then gfSplitLabel sep tok.1 else (tok.1, DEFAULT_EDGE)
      .ok ({ st with queue := updLast st.queue (fun q => { q with f := { q.f with label := label, edge := some edge, morph := some DEFAULT_MORPH }, raw := tok.1 }), state := 2 }, none)
    else if st.state == 3 then
      .ok ({ st with queue := updLast st.queue (fun q => { q with f := { q.f with word := some tok.1 }, num := some st.termCnt }), termCnt := st.termCnt + 1, state := 4 }, none)
    else .error .valueError

/-- the sentence part after a discobracket tree: the first token after the tree is dropped (the TAB); then tokens are
    read up to the whitespace that contains the line break; whitespace separates the words and is not a word;
    returns (positions -> text, rest) -/
def discoSentence : List (Str × LexClass) → Nat → List (Nat × Str) → List (Nat × Str) × List (Str × LexClass)
  | [], _, acc => (acc.reverse, [])
  | (t, c) :: rest, pos, acc =>
    if c == .ws then (if t.contains '\n' then (acc.reverse, rest) else discoSentence rest pos acc)
    else discoSentence rest (pos + 1) ((pos, t) :: acc)

mutual
/-- discobracket post-pass: token words are 1-based indices into the sentence -/
def discoApply (reordered : Bool) (tm : List (Nat × Str)) : Tree → Option Tree
  | .leaf n f =>
    match f.word.bind strToNat? with
    | some k =>
      if reordered then some (.leaf n { f with word := some ((f.word.getD []) ++ ['-'] ++ ((tm.find? (·.1 == n)).map (·.2)).getD "0".toList) })
      else some (.leaf k { f with word := some (((tm.find? (·.1 == k)).map (·.2)).getD "0".toList) })
    | none => none
  | .node f ks => (discoApplyL reordered tm ks).map (.node f)
def discoApplyL (reordered : Bool) (tm : List (Nat × Str)) : List Tree → Option (List Tree)
  | [] => some []
  | t :: ts => match discoApply reordered tm t, discoApplyL reordered tm ts with
    | some a, some b => some (a :: b)
    | _, _ => none
end

/-- the reader loop over the lexer stream -/
def brLoop (o : InOpts) : Nat → BrState → List (Str × LexClass) → Except Err (List (Nat × Tree))
  | 0, _, _ => .error .other
  | _, st, [] => if st.level != 0 then .error .valueError else .ok st.out.reverse
  | fuel + 1, st, tok :: rest =>
    match brStep o st tok with
    | .error e => .error e
    | .ok (st', none) => brLoop o fuel st' rest
    | .ok (st', some t) =>
      let sid := st.cnt
      if o.disco then
        match rest with
        | [] => .error .valueError      -- "no sentence after tree"
        | _first :: rest1 =>
          -- the loop tests the token just read (initially the first one after the tree): whitespace with a line break ends it
          let (tm, rest2) := if _first.2 == .ws && _first.1.contains '\n' then ([], rest1) else discoSentence rest1 1 []
          match discoApply o.discoReordered tm t with
          | some t' => brLoop o fuel { st' with out := (sid, t') :: st'.out } rest2
          | none => .error .valueError
      else brLoop o fuel { st' with out := (sid, t) :: st'.out } rest

/-- `treeinput.brackets` / `discobrackets` on the decoded text of the file -/
def readBrackets (o : InOpts) (text : Str) : Except Err (List (Nat × Tree)) :=
  let toks := bracketLex text
  brLoop o (toks.length + 1) { cnt := o.firstId.getD 1 } toks

/-! ### export reader -/

structure ExpFields where
  word : Str
  lemma : Str
  label : Str
  morph : Str
  edge : Str
  parent : Nat

def exportParseLine (o : InOpts) (line : Str) : Except Err ExpFields :=
  let fs := splitWs line
  match fs[4]? with
  | none => .error .indexError
  | some f4 =>
    let fs := if pyIsDigit f4 then (fs.take 1 ++ [DEFAULT_LEMMA] ++ fs.drop 1) else fs
    match fs with
    | w :: le :: l :: m :: e :: p :: _ =>
      match strToNat? p with
      | none => .error .valueError
      | some pn =>
        if !((500 ≤ pn && pn < 1000) || pn == 0) then .error .valueError else
        let (l', e') := if o.gfSplit then gfSplitLabel (o.gfSeparator.getD DEFAULT_GF_SEP) l else (l, e)
        .ok { word := w, lemma := le, label := l', morph := m, edge := e', parent := pn }
    | _ => .error .valueError

/-- `export_build_tree` with the children sorted by their smallest token; fuel bounds the depth -/
def exportBuild (nodes : List (Nat × ExpFields)) : Nat → Nat → Option Tree
  | 0, _ => none
  | fuel + 1, num =>
    let kidNums := (nodes.filter fun (_, f) => f.parent == num).map (·.1)
    let f : Fields := match nodes.find? (·.1 == num) with
      | some (_, e) => { label := e.label, word := some e.word, lemma := some e.lemma, morph := some e.morph, edge := some e.edge }
      | none => { label := DEFAULT_ROOT, edge := some DEFAULT_EDGE }
    if kidNums.isEmpty then some (.leaf num f)
    else (kidNums.mapM (exportBuild nodes fuel)).map fun ks => .node f (sortBy Tree.leftmost ks)

/-- later definitions of the same number overwrite earlier ones (dict assignment) but the child lists keep every mention -/
def exportSentence (o : InOpts) (lines : List Str) : Except Err Tree := do
  let fs ← lines.mapM (exportParseLine o)
  let step := fun (acc : List (Nat × ExpFields) × Nat) (f : ExpFields) =>
    let isCons := f.word.length == 4 && f.word.head? == some '#' && pyIsDigit (f.word.drop 1)
    let num := if isCons then (strToNat? (f.word.drop 1)).getD 0 else acc.2
    (acc.1 ++ [(num, f)], if isCons then acc.2 else acc.2 + 1)
  let nodes := (fs.foldl step ([], 1)).1
  if nodes.any (fun (n, _) => n > 999) then throw .valueError
  match exportBuild nodes (nodes.length + 2) 0 with
  | some t => pure t
  | none => throw .other

def exportLoop (o : InOpts) : List Str → Option (Nat × List Str) → Nat → List (Nat × Tree) → Except Err (List (Nat × Tree))
  | [], _, _, acc => .ok acc.reverse
  | line :: rest, cur, treeCnt, acc =>
    let line := (line.dropWhile pyIsSpace).reverse.dropWhile pyIsSpace |>.reverse
    match cur with
    | none =>
      if "#BOS".toList.isPrefixOf line then
        match (splitWs line)[1]?.bind strToNat? with
        | some id => exportLoop o rest (some (id, [])) treeCnt acc
        | none => .error .valueError
      else exportLoop o rest none treeCnt acc
    | some (id, body) =>
      if "#EOS".toList.isPrefixOf line then
        match exportSentence o body.reverse with
        | .error e => .error e
        | .ok t =>
          let t := if o.replaceParens then replaceParensTree t else t
          exportLoop o rest none (treeCnt + 1) ((if o.continuous then treeCnt else id, t) :: acc)
      else exportLoop o rest (some (id, line :: body)) treeCnt acc

def readExport (o : InOpts) (text : Str) : Except Err (List (Nat × Tree)) :=
  exportLoop o (splitOnChar '\n' text) none 1 []

/-! ### TIGER-XML reader, from the element structure -/

structure XTerm where
  id : Str
  word : Option Str
  pos : Option Str
  morph : Option Str
  lemma : Option Str

structure XNt where
  id : Str
  cat : Option Str
  edges : List (Option Str × Str)    -- (label, idref)

structure XSent where
  id : Str
  terms : List XTerm
  nts : List XNt

/-- build the subtree with id `i`; every id has exactly one incoming edge (checked before).  `edge` is the node's edge field: the `label`
    attribute of the `<edge>` pointing to it, `none` when that attribute is absent (`edge.get('label')` is Python `None`); `--` for the root -/
def tigerBuild (s : XSent) : Nat → Str → Option Str → Option Tree
  | 0, _, _ => none
  | fuel + 1, i, edge =>
    match s.terms.zipIdx.find? (fun (t, _) => t.id == i) with
    | some (t, k) => some (.leaf (k + 1) { label := t.pos.getD [], word := some (t.word.getD "None".toList), morph := t.morph, lemma := t.lemma, edge := edge })
    | none =>
      match s.nts.find? (·.id == i) with
      | some nt =>
        (nt.edges.mapM fun (e : Option Str × Str) => tigerBuild s fuel e.2 e.1).map fun ks =>
          .node { label := nt.cat.getD [], morph := some DEFAULT_MORPH, edge := edge, lemma := some DEFAULT_LEMMA } ks
      | none => none

mutual
def gfSplitTree (sep : Str) : Tree → Tree
  | .leaf n f => let (l, e) := gfSplitLabel sep f.label; .leaf n { f with label := l, edge := some e }
  | .node f ks => let (l, e) := gfSplitLabel sep f.label; .node { f with label := l, edge := some e } (gfSplitTreeL sep ks)
def gfSplitTreeL (sep : Str) : List Tree → List Tree
  | [] => []
  | t :: ts => gfSplitTree sep t :: gfSplitTreeL sep ts
end

/-- `tigerxml_build_tree`: ValueError for several incoming edges / no root / several roots -/
def tigerSentence (o : InOpts) (s : XSent) : Except Err Tree :=
  let ids := s.terms.map (·.id) ++ s.nts.map (·.id)
  let refs := s.nts.flatMap fun nt => nt.edges.map (·.2)
  if refs.any (fun r => !ids.contains r) then .error .keyError
  else if refs.any (fun r => refs.count r > 1) then .error .valueError
  else
    let roots := ids.eraseDups.filter fun i => !refs.contains i
    match roots with
    | [] => .error .valueError
    | [r] =>
      match tigerBuild s (ids.length + 2) r (some DEFAULT_EDGE) with
      | none => .error .other
      | some root =>
        let top := if root.fields.label != DEFAULT_ROOT
          then Tree.node { label := DEFAULT_ROOT, morph := some DEFAULT_MORPH, edge := some DEFAULT_EDGE, lemma := some DEFAULT_LEMMA } [root]
          else root
        let top := if o.gfSplit then gfSplitTree (o.gfSeparator.getD DEFAULT_GF_SEP) top else top
        .ok (if o.replaceParens then replaceParensTree top else top)
    | _ => .error .valueError

/-- last run of digits in the id -/
def lastNumber (s : Str) : Option Nat :=
  let r := s.reverse.dropWhile (fun c => !c.isDigit)
  strToNat? (r.takeWhile Char.isDigit).reverse

/-- sentences that raise ValueError are skipped; the counter still advances -/
def readTiger (o : InOpts) (ss : List XSent) : Except Err (List (Nat × Tree)) :=
  (ss.zipIdx.foldlM (fun (acc : List (Nat × Tree)) (s, i) =>
    match lastNumber s.id with
    | none => .error .indexError
    | some n =>
      match tigerSentence o s with
      | .ok t => .ok (acc ++ [(if o.continuous then i + 1 else n, t)])
      | .error .valueError => .ok acc
      | .error e => .error e) [])

end TT
