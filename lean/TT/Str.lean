/-
  TT.Str — strings as `List Char`, and small exact models of the Python
  builtins the code under study uses (`rfind`, `isdigit`, `lower`, `split()`,
  `strip()`, `"%d"`, `int()`, stable `sorted`).  No Mathlib.
-/
namespace TT

abbrev Str := List Char

def Str.ofS (s : String) : Str := s.toList
def Str.toS (s : Str) : String := String.ofList s

instance : Coe String Str := ⟨Str.ofS⟩

/-- Python `str.isdigit()` on the ASCII alphabet: non-empty and all decimal digits. -/
def pyIsDigit (s : Str) : Bool := !s.isEmpty && s.all Char.isDigit

/-- ASCII `str.lower()`. -/
def pyLower (s : Str) : Str := s.map Char.toLower

/-- ASCII `str.isupper()` on the first character as used by the LoPar writer:
    `word[0].isupper()`. -/
def pyIsUpperChar (c : Char) : Bool :=
  c.isUpper || (0xC0 ≤ c.toNat && c.toNat ≤ 0xDE && c.toNat != 0xD7)   -- Latin-1 capitals too

/-- `string.whitespace` -/
def pyIsSpace (c : Char) : Bool :=
  c = ' ' || c = '\t' || c = '\n' || c = '\r' || c = '\x0b' || c = '\x0c'

/-- Split at the LAST occurrence of `c` : `s = a ++ c :: b`, `c ∉ b`. (`rfind`) -/
def splitLast (c : Char) : Str → Option (Str × Str)
  | [] => none
  | x :: xs =>
    match splitLast c xs with
    | some (a, b) => some (x :: a, b)
    | none => if x = c then some ([], xs) else none

/-- Split at the FIRST occurrence of `c` : `s = a ++ c :: b`, `c ∉ a`. (`find`) -/
def splitFirst (c : Char) : Str → Option (Str × Str)
  | [] => none
  | x :: xs =>
    if x = c then some ([], xs)
    else match splitFirst c xs with
      | some (a, b) => some (x :: a, b)
      | none => none

/-- `str.replace(old, new)` for a non-empty `old`. Fuel = length. -/
def replaceAllAux (old new : Str) : Nat → Str → Str
  | 0, s => s
  | _, [] => []
  | n + 1, s@(x :: xs) =>
    if old.isPrefixOf s && !old.isEmpty then new ++ replaceAllAux old new n (s.drop old.length)
    else x :: replaceAllAux old new n xs

def replaceAll (old new s : Str) : Str := replaceAllAux old new (s.length + 1) s

/-- decimal rendering of a natural number (`"%d"`) -/
def natToStr (n : Nat) : Str := (toString n).toList

def intToStr (n : Int) : Str := (toString n).toList

/-- all-ASCII-digit string to Nat (`int(s)` for `s.isdigit()`), `none` otherwise -/
def strToNat? (s : Str) : Option Nat :=
  if pyIsDigit s then some (s.foldl (fun acc c => acc * 10 + (c.toNat - '0'.toNat)) 0) else none

/-- `str.split()` : split on runs of whitespace, no empty fields -/
def splitWsAux : Str → Str → List Str
  | [], cur => if cur.isEmpty then [] else [cur.reverse]
  | c :: cs, cur =>
    if pyIsSpace c then
      (if cur.isEmpty then splitWsAux cs [] else cur.reverse :: splitWsAux cs [])
    else splitWsAux cs (c :: cur)

def splitWs (s : Str) : List Str := splitWsAux s []

/-- `str.split(c)` for a single character separator (keeps empty fields) -/
def splitOnChar (c : Char) : Str → List Str
  | [] => [[]]
  | x :: xs =>
    if x = c then [] :: splitOnChar c xs
    else match splitOnChar c xs with
      | [] => [[x]]
      | y :: ys => (x :: y) :: ys

def joinWith (sep : Str) : List Str → Str
  | [] => []
  | [x] => x
  | x :: y :: r => x ++ sep ++ joinWith sep (y :: r)

/-- stable insertion of `x` by key: before the first element whose key is `≥` -/
def insertBy {α} (key : α → Nat) (x : α) : List α → List α
  | [] => [x]
  | y :: ys => if key x ≤ key y then x :: y :: ys else y :: insertBy key x ys

/-- stable sort by a `Nat` key (Python `sorted(xs, key=...)`) -/
def sortBy {α} (key : α → Nat) : List α → List α
  | [] => []
  | x :: xs => insertBy key x (sortBy key xs)

end TT
