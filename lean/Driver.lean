import Driver.Main
